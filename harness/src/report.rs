//! Evidence files, known-findings matching, replay artefacts.

use crate::explore::{Report, Violation};
use serde_json::{json, Map, Value};
use std::collections::BTreeMap;

pub const VERIF_DIR: &str = "/verif";

#[derive(Default)]
pub struct Part {
    pub engine: String,
    pub states: u64,
    pub transitions: u64,
    pub traces: u64,
    pub evaluations: u64,
    pub distinct: u64,
    pub samples: Vec<Value>,
    pub exhaustive: bool,
    pub extra: Map<String, Value>,
    /// (violation, replay json, how many times seen)
    pub violations: Vec<(Violation, Value, usize)>,
    pub machinery_errors: Vec<String>,
    pub rule: String,
    pub assumptions: Vec<String>,
}

impl Part {
    pub fn from_sim(property: &str, tier: &str, rep: &Report, rule: &str, assumptions: &[String]) -> Part {
        let mut extra = Map::new();
        extra.insert("executions".into(), json!(rep.executions));
        extra.insert("executions_by_deviations".into(), json!(rep.by_devs.iter().map(|(k, v)| (k.to_string(), *v)).collect::<BTreeMap<_, _>>()));
        extra.insert("deviation_bound".into(), json!(rep.bound));
        extra.insert("deviation_bound_completed".into(), json!(rep.bound_completed));
        extra.insert("schedules_beyond_bound_not_run".into(), json!(rep.pruned_by_bound));
        extra.insert("distinct_outcomes".into(), json!(rep.outcomes.len()));
        extra.insert("scenarios".into(), json!(rep.scenarios));
        extra.insert("max_choice_points".into(), json!(rep.max_points));
        extra.insert("choice_points_total".into(), json!(rep.choice_points_total));
        extra.insert("max_events".into(), json!(rep.max_events));
        extra.insert("caps_hit".into(), json!(rep.caps_hit));
        extra.insert("determinism_rechecks".into(), json!(rep.rechecks));
        extra.insert("blocked_runs".into(), json!(rep.blocked_runs));
        extra.insert("task_panics_observed".into(), json!(rep.panics_seen));
        let mut violations = Vec::new();
        for f in rep.found.values() {
            let replay = json!({
                "engine": "sim",
                "property": property,
                "tier": tier,
                "scenario": f.scenario,
                "choices": f.choices,
                "deviations": f.devs,
                "violation": f.violation,
            });
            violations.push((f.violation.clone(), replay, f.count));
        }
        Part {
            engine: "sim".into(),
            states: rep.states.len() as u64,
            transitions: rep.transitions.len() as u64,
            traces: rep.executions,
            evaluations: rep.executions,
            distinct: rep.outcomes.len() as u64,
            samples: rep.samples.clone(),
            exhaustive: rep.bound_completed,
            extra,
            violations,
            machinery_errors: rep.machinery_errors.clone(),
            rule: rule.to_string(),
            assumptions: assumptions.to_vec(),
        }
    }
}

fn sanitize(s: &str) -> String {
    let mut out: String = s.chars().map(|c| if c.is_ascii_alphanumeric() || c == '-' || c == '.' { c } else { '_' }).collect();
    out.truncate(120);
    out
}

pub struct Known {
    pub property: String,
    pub sig: String,
    pub status: String,
    pub what: String,
}

pub fn load_known() -> Vec<Known> {
    let path = format!("{}/known_findings.json", VERIF_DIR);
    let data = match std::fs::read_to_string(&path) {
        Ok(d) => d,
        Err(_) => return vec![],
    };
    let v: Value = serde_json::from_str(&data).expect("known_findings.json must parse");
    let mut out = Vec::new();
    for f in v["findings"].as_array().cloned().unwrap_or_default() {
        out.push(Known {
            property: f["property"].as_str().unwrap_or("").to_string(),
            sig: f["sig"].as_str().unwrap_or("").to_string(),
            status: f["status"].as_str().unwrap_or("").to_string(),
            what: f["what"].as_str().unwrap_or("").to_string(),
        });
    }
    out
}

fn sig_matches(pattern: &str, sig: &str) -> bool {
    if let Some(p) = pattern.strip_suffix('*') {
        sig.starts_with(p)
    } else {
        pattern == sig
    }
}

/// Where evidence and replays go: /verif, unless VERIF_OUT_DIR redirects a side run (background
/// thorough runs from a copied binary must not overwrite the evidence of the registered commands).
fn out_dir() -> String {
    std::env::var("VERIF_OUT_DIR").unwrap_or_else(|_| VERIF_DIR.to_string())
}

/// Write evidence, replays, print verdict lines; returns the process exit code.
pub fn finish(property: &str, tier: &str, seed: i64, parts: Vec<Part>, wall_s: f64) -> i32 {
    let known = load_known();
    let mut coverage = Map::new();
    let mut states = 0u64;
    let mut transitions = 0u64;
    let mut traces = 0u64;
    let mut evals = 0u64;
    let mut distinct = 0u64;
    let mut samples: Vec<Value> = Vec::new();
    let mut exhaustive = true;
    let mut rules = Vec::new();
    let mut assumptions: Vec<String> = Vec::new();
    let mut machinery: Vec<String> = Vec::new();
    let mut engines = Map::new();
    let mut total_viol = 0usize;
    let mut exit = 0;
    let mut lines: Vec<String> = Vec::new();
    let mut known_hits: BTreeMap<String, usize> = BTreeMap::new();
    let mut more: Vec<String> = Vec::new();
    for p in &parts {
        states += p.states;
        transitions += p.transitions;
        traces += p.traces;
        evals += p.evaluations;
        distinct += p.distinct;
        for s in p.samples.iter().take(4) {
            samples.push(json!({"engine": p.engine, "case": s}));
        }
        exhaustive &= p.exhaustive;
        rules.push(format!("[{}] {}", p.engine, p.rule));
        for a in &p.assumptions {
            if !assumptions.contains(a) {
                assumptions.push(a.clone());
            }
        }
        machinery.extend(p.machinery_errors.iter().cloned());
        let mut e = p.extra.clone();
        e.insert("states".into(), json!(p.states));
        e.insert("transitions".into(), json!(p.transitions));
        e.insert("evaluations".into(), json!(p.evaluations));
        e.insert("exhaustive_within_bounds".into(), json!(p.exhaustive));
        engines.insert(p.engine.clone(), Value::Object(e));
        for (v, replay, count) in &p.violations {
            let k = known.iter().find(|k| k.property == property && k.status != "fixed" && sig_matches(&k.sig, &v.sig));
            match k {
                Some(k) => {
                    *known_hits.entry(format!("{} [{}]", k.what, k.sig)).or_insert(0) += count;
                }
                None => {
                    total_viol += 1;
                    let dir = format!("{}/replays/{}", out_dir(), property);
                    let _ = std::fs::create_dir_all(&dir);
                    let path = format!("{}/{}.json", dir, sanitize(&v.sig));
                    let _ = std::fs::write(&path, serde_json::to_vec_pretty(replay).unwrap());
                    if total_viol <= 12 {
                        lines.push(format!("VIOLATION property={} replay={}", property, path));
                        lines.push(format!("  oracle={} sig={} seen={}x", v.oracle, v.sig, count));
                        lines.push(format!("  detail: {}", v.detail));
                    } else {
                        more.push(v.sig.clone());
                    }
                    exit = 1;
                }
            }
        }
    }
    if !more.is_empty() {
        lines.push(format!("... and {} more distinct violation signatures (replays written): {}", more.len(), more.iter().take(40).cloned().collect::<Vec<_>>().join(" | ")));
    }
    for (what, n) in &known_hits {
        lines.push(format!("KNOWN-FINDING: property={} {} (seen {}x)", property, what, n));
    }
    if samples.is_empty() {
        samples.push(json!("no sample recorded"));
    }
    coverage.insert("states".into(), json!(states.max(1)));
    coverage.insert("transitions".into(), json!(transitions.max(1)));
    coverage.insert("traces_validated_against_impl".into(), json!(traces));
    coverage.insert("samples".into(), json!(samples));
    coverage.insert("evaluations".into(), json!(evals.max(1)));
    coverage.insert("distinct_nontrivial".into(), json!(distinct));
    coverage.insert("rule".into(), json!(rules.join(" ; ")));
    coverage.insert("exhaustive".into(), json!(exhaustive && machinery.is_empty()));
    coverage.insert("engines".into(), Value::Object(engines));
    coverage.insert("known_findings_seen".into(), json!(known_hits));
    coverage.insert("machinery_errors".into(), json!(machinery));
    let ev = json!({
        "property_id": property,
        "tier": tier,
        "seed": seed,
        "level": "model_checking",
        "coverage": Value::Object(coverage),
        "assumptions": assumptions,
        "wall_s": wall_s,
        "violations": total_viol,
    });
    let _ = std::fs::create_dir_all(format!("{}/evidence", out_dir()));
    std::fs::write(format!("{}/evidence/{}.json", out_dir(), property), serde_json::to_vec_pretty(&ev).unwrap()).expect("write evidence");
    for l in &lines {
        println!("{}", l);
    }
    if !machinery.is_empty() {
        for m in machinery.iter().take(10) {
            println!("MACHINERY-ERROR property={} {}", property, m);
        }
        if exit == 0 {
            exit = 2;
        }
    }
    println!(
        "property={} tier={} states={} transitions={} executions/evaluations={} distinct={} violations={} known={} exhaustive_within_bounds={} wall={:.1}s",
        property,
        tier,
        states,
        transitions,
        evals,
        distinct,
        total_viol,
        known_hits.len(),
        exhaustive,
        wall_s
    );
    exit
}
