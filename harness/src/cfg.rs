//! pgcat.toml generation and client-script building helpers.

use crate::mockpg::ServerSpec;
use crate::wire;
use crate::world::{Actor, CloseKind, Cond, Step};

#[derive(Clone, Debug)]
pub struct UserCfg {
    pub username: String,
    pub password: Option<String>,
    pub pool_size: u32,
    pub extra: String,
}

#[derive(Clone, Debug)]
pub struct ShardCfg {
    pub id: String,
    pub database: String,
    /// (host, port, role)
    pub servers: Vec<(String, u16, String)>,
    /// (host, port, target index)
    pub mirrors: Vec<(String, u16, usize)>,
}

#[derive(Clone, Debug)]
pub struct PoolCfg {
    pub name: String,
    pub mode: String,
    pub extra: String,
    pub users: Vec<UserCfg>,
    pub shards: Vec<ShardCfg>,
    pub plugins: String,
}

#[derive(Clone, Debug)]
pub struct Cfg {
    pub general_extra: String,
    pub connect_timeout: u64,
    pub healthcheck_timeout: u64,
    pub healthcheck_delay: u64,
    pub ban_time: i64,
    pub idle_in_txn_timeout: u64,
    pub shutdown_timeout: u64,
    pub pools: Vec<PoolCfg>,
}

impl Default for Cfg {
    fn default() -> Self {
        Cfg {
            general_extra: String::new(),
            connect_timeout: 5000,
            healthcheck_timeout: 1000,
            healthcheck_delay: 30000,
            ban_time: 60,
            idle_in_txn_timeout: 0,
            shutdown_timeout: 60000,
            pools: vec![],
        }
    }
}

pub fn host_of(shard: usize, idx: usize, role: &str) -> String {
    format!("pg-s{}-{}{}", shard, &role[..1], idx)
}

impl PoolCfg {
    /// One shard with `primaries` (0/1) primary and `replicas` replicas.
    pub fn simple(name: &str, mode: &str, pool_size: u32, primaries: usize, replicas: usize) -> PoolCfg {
        PoolCfg::sharded(name, mode, pool_size, 1, primaries, replicas)
    }

    pub fn sharded(name: &str, mode: &str, pool_size: u32, shards: usize, primaries: usize, replicas: usize) -> PoolCfg {
        let mut sh = Vec::new();
        for s in 0..shards {
            let mut servers = Vec::new();
            for i in 0..primaries {
                servers.push((host_of(s, i, "primary"), 5432, "primary".to_string()));
            }
            for i in 0..replicas {
                servers.push((host_of(s, i, "replica"), 5432, "replica".to_string()));
            }
            sh.push(ShardCfg { id: s.to_string(), database: format!("db{}", s), servers, mirrors: vec![] });
        }
        PoolCfg {
            name: name.to_string(),
            mode: mode.to_string(),
            extra: String::new(),
            users: vec![UserCfg { username: "alice".into(), password: Some("alicepw".into()), pool_size, extra: String::new() }],
            shards: sh,
            plugins: String::new(),
        }
    }
}

impl Cfg {
    pub fn one(pool: PoolCfg) -> Cfg {
        Cfg { pools: vec![pool], ..Default::default() }
    }

    pub fn toml(&self) -> String {
        let mut s = String::new();
        s.push_str("[general]\nhost = \"0.0.0.0\"\nport = 6432\nadmin_username = \"admin_user\"\nadmin_password = \"admin_pass\"\n");
        s.push_str(&format!(
            "connect_timeout = {}\nhealthcheck_timeout = {}\nhealthcheck_delay = {}\nban_time = {}\nidle_client_in_transaction_timeout = {}\n",
            self.connect_timeout, self.healthcheck_timeout, self.healthcheck_delay, self.ban_time, self.idle_in_txn_timeout
        ));
        s.push_str(&format!("shutdown_timeout = {}\n", self.shutdown_timeout));
        s.push_str("idle_timeout = 3000000\nserver_lifetime = 86400000\nworker_threads = 1\n");
        s.push_str(&self.general_extra);
        s.push('\n');
        for p in &self.pools {
            s.push_str(&format!("[pools.{}]\npool_mode = \"{}\"\n", p.name, p.mode));
            s.push_str(&p.extra);
            s.push('\n');
            if !p.plugins.is_empty() {
                s.push_str(&p.plugins);
                s.push('\n');
            }
            for (i, u) in p.users.iter().enumerate() {
                s.push_str(&format!("[pools.{}.users.{}]\nusername = \"{}\"\n", p.name, i, u.username));
                if let Some(pw) = &u.password {
                    s.push_str(&format!("password = \"{}\"\n", pw));
                }
                s.push_str(&format!("pool_size = {}\n{}\n", u.pool_size, u.extra));
            }
            for sh in &p.shards {
                s.push_str(&format!("[pools.{}.shards.{}]\ndatabase = \"{}\"\nservers = [", p.name, sh.id, sh.database));
                let v: Vec<String> = sh.servers.iter().map(|(h, p, r)| format!("[\"{}\", {}, \"{}\"]", h, p, r)).collect();
                s.push_str(&v.join(", "));
                s.push_str("]\n");
                if !sh.mirrors.is_empty() {
                    s.push_str("mirrors = [");
                    let v: Vec<String> = sh.mirrors.iter().map(|(h, p, t)| format!("[\"{}\", {}, {}]", h, p, t)).collect();
                    s.push_str(&v.join(", "));
                    s.push_str("]\n");
                }
            }
        }
        s
    }

    /// One reference-backend spec per configured server (and mirror).
    pub fn servers(&self) -> Vec<ServerSpec> {
        let mut out: Vec<ServerSpec> = Vec::new();
        for p in &self.pools {
            for sh in &p.shards {
                for (h, port, r) in &sh.servers {
                    let addr = format!("{}:{}", h, port);
                    if !out.iter().any(|s| s.addr == addr) {
                        out.push(ServerSpec::new(&addr, &format!("{}/{}/{}", p.name, sh.id, r)));
                    }
                }
                for (h, port, t) in &sh.mirrors {
                    let addr = format!("{}:{}", h, port);
                    if !out.iter().any(|s| s.addr == addr) {
                        out.push(ServerSpec::new(&addr, &format!("{}/{}/mirror-of-{}", p.name, sh.id, t)));
                    }
                }
            }
        }
        out
    }
}

/// Builder for client scripts that keeps track of the expected ReadyForQuery count.
#[derive(Clone)]
pub struct Script {
    pub name: String,
    pub steps: Vec<Step>,
    pub z: usize,
}

impl Script {
    pub fn new(name: &str) -> Script {
        Script { name: name.to_string(), steps: vec![], z: 0 }
    }
    pub fn connect(mut self, user: &str, db: &str, pw: Option<&str>) -> Script {
        self.steps.push(Step::Connect { user: user.into(), db: db.into(), password: pw.map(|s| s.to_string()), params: vec![] });
        self.z = 1;
        self
    }
    pub fn connect_params(mut self, user: &str, db: &str, pw: Option<&str>, params: &[(&str, &str)]) -> Script {
        self.steps.push(Step::Connect {
            user: user.into(),
            db: db.into(),
            password: pw.map(|s| s.to_string()),
            params: params.iter().map(|(k, v)| (k.to_string(), v.to_string())).collect(),
        });
        self.z = 1;
        self
    }
    /// simple query, then wait for its ReadyForQuery
    pub fn q(mut self, sql: &str) -> Script {
        self.steps.push(Step::Send { bytes: wire::query(sql), label: format!("Q {}", sql) });
        self.z += 1;
        self.steps.push(Step::Wait(Cond::ZOrClosed(self.z)));
        self
    }
    /// simple query without waiting (pipelined)
    pub fn q_nowait(mut self, sql: &str) -> Script {
        self.steps.push(Step::Send { bytes: wire::query(sql), label: format!("Q {}", sql) });
        self.z += 1;
        self
    }
    /// raw bytes that end with a message producing one ReadyForQuery
    pub fn send_z(mut self, bytes: Vec<u8>, label: &str) -> Script {
        self.steps.push(Step::Send { bytes, label: label.to_string() });
        self.z += 1;
        self.steps.push(Step::Wait(Cond::ZOrClosed(self.z)));
        self
    }
    /// raw bytes, no wait, no Z expected
    pub fn send(mut self, bytes: Vec<u8>, label: &str) -> Script {
        self.steps.push(Step::Send { bytes, label: label.to_string() });
        self
    }
    pub fn expect_z(mut self) -> Script {
        self.z += 1;
        self.steps.push(Step::Wait(Cond::ZOrClosed(self.z)));
        self
    }
    pub fn wait_z(mut self) -> Script {
        self.steps.push(Step::Wait(Cond::ZOrClosed(self.z)));
        self
    }
    pub fn wait_msgs(mut self, n: usize) -> Script {
        self.steps.push(Step::Wait(Cond::Msgs(n)));
        self
    }
    pub fn wait(mut self, c: Cond) -> Script {
        self.steps.push(Step::Wait(c));
        self
    }
    pub fn terminate(mut self) -> Script {
        self.steps.push(Step::Send { bytes: wire::terminate(), label: "X".into() });
        self.steps.push(Step::Wait(Cond::Closed));
        self
    }
    pub fn close(mut self, k: CloseKind) -> Script {
        self.steps.push(Step::Close(k));
        self
    }
    pub fn step(mut self, s: Step) -> Script {
        self.steps.push(s);
        self
    }
    pub fn actor(self) -> Actor {
        Actor { name: self.name, steps: self.steps }
    }
}

pub fn env(name: &str, steps: Vec<Step>) -> Actor {
    Actor { name: name.to_string(), steps }
}
