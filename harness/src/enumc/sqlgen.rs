//! A small labelled statement grammar. The label of a statement (plain read or
//! not; mentions the relation `{R}` or not) comes from the production that
//! generated the text, never from a parser.

#[derive(Clone, Copy, Debug, PartialEq, Eq)]
pub enum Kind {
    /// plain read: must not be pinned to the primary
    Read,
    /// anything else: must run on the primary
    Write,
    /// routing unspecified by the property (e.g. EXPLAIN of a read)
    Either,
}

#[derive(Clone, Copy, Debug, PartialEq, Eq)]
pub enum Mention {
    Yes,
    No,
    /// e.g. a CTE that shadows the table name
    Unclear,
}

#[derive(Clone, Copy, Debug)]
pub struct Shape {
    pub name: &'static str,
    /// `{R}` = relation spelling, `{L}` = the bare lower-case table name used in non-relation positions
    pub sql: &'static str,
    pub kind: Kind,
    pub mention: Mention,
}

const fn s(name: &'static str, sql: &'static str, kind: Kind, mention: Mention) -> Shape {
    Shape { name, sql, kind, mention }
}

use Kind::*;
use Mention::*;

pub const SHAPES: &[Shape] = &[
    // ---- plain reads mentioning R ----
    s("from", "SELECT * FROM {R}", Read, Yes),
    s("from-alias-where", "SELECT x.a FROM {R} AS x WHERE x.a = 1 ORDER BY 1 LIMIT 3", Read, Yes),
    s("inner-join", "SELECT * FROM other o JOIN {R} r ON o.id = r.id", Read, Yes),
    s("left-join", "SELECT * FROM other o LEFT JOIN {R} r ON o.id = r.id", Read, Yes),
    s("cross-join", "SELECT * FROM other CROSS JOIN {R}", Read, Yes),
    s("comma-join", "SELECT * FROM other, {R}", Read, Yes),
    s("subquery-from", "SELECT * FROM (SELECT * FROM {R}) sub", Read, Yes),
    s("subquery-where-in", "SELECT * FROM other WHERE id IN (SELECT id FROM {R})", Read, Yes),
    s("subquery-exists", "SELECT * FROM other WHERE EXISTS (SELECT 1 FROM {R})", Read, Yes),
    s("subquery-select-list", "SELECT (SELECT count(*) FROM {R}) FROM other", Read, Yes),
    s("cte-body", "WITH c AS (SELECT * FROM {R}) SELECT * FROM c", Read, Yes),
    s("union", "SELECT 1 UNION ALL SELECT a FROM {R}", Read, Yes),
    s("intersect-paren", "(SELECT a FROM other) INTERSECT (SELECT a FROM {R})", Read, Yes),
    s("table-cmd", "TABLE {R}", Read, Yes),
    s("nested-2", "SELECT * FROM (SELECT * FROM other WHERE id IN (SELECT id FROM {R})) s2", Read, Yes),
    // ---- reads not mentioning R as a relation ----
    s("literal", "SELECT '{L}'", Read, No),
    s("column-name", "SELECT {L} FROM other", Read, No),
    s("alias-named", "SELECT * FROM other AS {L}", Read, No),
    s("plain", "SELECT 1", Read, No),
    s("values", "VALUES (1), (2)", Read, No),
    s("cte-shadows", "WITH {L} AS (SELECT 1) SELECT * FROM {L}", Read, Unclear),
    // ---- not plain reads, mentioning R ----
    s("for-update", "SELECT * FROM {R} FOR UPDATE", Write, Yes),
    s("for-share", "SELECT * FROM {R} FOR SHARE", Write, Yes),
    s("for-no-key-update", "SELECT * FROM {R} FOR NO KEY UPDATE", Write, Yes),
    s("for-key-share", "SELECT * FROM {R} FOR KEY SHARE", Write, Yes),
    s("for-update-subquery", "SELECT * FROM (SELECT * FROM {R} FOR UPDATE) s", Write, Yes),
    s("select-into", "SELECT * INTO newt FROM {R}", Write, Yes),
    s("cte-delete", "WITH c AS (DELETE FROM {R} RETURNING *) SELECT * FROM c", Write, Yes),
    s("cte-insert", "WITH c AS (INSERT INTO {R} VALUES (1) RETURNING *) SELECT * FROM c", Write, Yes),
    s("cte-update", "WITH c AS (UPDATE {R} SET a = 1 RETURNING *) SELECT * FROM c", Write, Yes),
    s("cte-then-insert", "WITH c AS (SELECT * FROM {R}) INSERT INTO other SELECT * FROM c", Write, Yes),
    s("insert-values", "INSERT INTO {R} VALUES (1)", Write, Yes),
    s("insert-select", "INSERT INTO other SELECT * FROM {R}", Write, Yes),
    s("insert-on-conflict", "INSERT INTO {R} (a) VALUES (1) ON CONFLICT (a) DO NOTHING RETURNING a", Write, Yes),
    s("update", "UPDATE {R} SET a = 1 WHERE b = 2", Write, Yes),
    s("update-from", "UPDATE other SET a = 1 FROM {R} r WHERE other.id = r.id", Write, Yes),
    s("delete", "DELETE FROM {R} WHERE a = 1", Write, Yes),
    s("delete-using", "DELETE FROM other USING {R} r WHERE other.id = r.id", Write, Yes),
    s("merge", "MERGE INTO {R} m USING other o ON m.id = o.id WHEN MATCHED THEN DELETE", Write, Yes),
    s("copy-to", "COPY {R} TO STDOUT", Write, Yes),
    s("copy-from", "COPY {R} FROM STDIN", Write, Yes),
    s("copy-query", "COPY (SELECT * FROM {R}) TO STDOUT", Write, Yes),
    s("truncate", "TRUNCATE TABLE {R}", Write, Yes),
    s("lock", "LOCK TABLE {R} IN ACCESS EXCLUSIVE MODE", Write, Yes),
    s("create-table-as", "CREATE TABLE newt AS SELECT * FROM {R}", Write, Yes),
    s("create-view", "CREATE VIEW v AS SELECT * FROM {R}", Write, Yes),
    s("alter", "ALTER TABLE {R} ADD COLUMN z INT", Write, Yes),
    s("drop", "DROP TABLE {R}", Write, Yes),
    s("explain", "EXPLAIN SELECT * FROM {R}", Either, Yes),
    s("explain-analyze-delete", "EXPLAIN ANALYZE DELETE FROM {R}", Write, Yes),
    // ---- not plain reads, no relation R ----
    s("begin", "BEGIN", Write, No),
    s("start-transaction", "START TRANSACTION ISOLATION LEVEL SERIALIZABLE", Write, No),
    s("commit", "COMMIT", Write, No),
    s("rollback", "ROLLBACK", Write, No),
    s("savepoint", "SAVEPOINT sp1", Write, No),
    s("set", "SET statement_timeout = 100", Write, No),
    s("reset", "RESET statement_timeout", Write, No),
    s("show", "SHOW statement_timeout", Write, No),
    s("create", "CREATE TABLE newt (a INT)", Write, No),
    s("create-index", "CREATE INDEX i ON other (a)", Write, No),
    s("vacuum", "VACUUM other", Write, No),
    s("analyze", "ANALYZE other", Write, No),
    s("grant", "GRANT SELECT ON other TO bob", Write, No),
    s("call", "CALL do_things()", Write, No),
    s("prepare", "PREPARE p1 AS SELECT 1", Write, No),
    s("execute", "EXECUTE p1", Write, No),
    s("deallocate", "DEALLOCATE p1", Write, No),
    s("listen", "LISTEN ch", Write, No),
    s("notify", "NOTIFY ch", Write, No),
    s("discard", "DISCARD ALL", Write, No),
    s("comment", "COMMENT ON TABLE other IS 'x'", Write, No),
];

pub fn render(shape: &Shape, relation: &str, bare: &str) -> String {
    shape.sql.replace("{R}", relation).replace("{L}", bare)
}
