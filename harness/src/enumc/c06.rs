//! C06 (enum part): sharding key -> PostgreSQL hash partition, by every routing path.

use super::pghash;
use super::{bm, guarded, q, silence_panics};
use crate::explore::Violation;
use crate::report::Part;
use crate::wire;
use pgcat::pool::PoolSettings;
use pgcat::query_router::QueryRouter;
use pgcat::sharding::{Sharder, ShardingFunction};
use regex::Regex;
use serde_json::json;
use std::collections::BTreeSet;
use std::sync::atomic::{AtomicU64, Ordering};
use std::sync::{Arc, Mutex};

fn vio(oracle: &str, sig: &str, detail: String) -> Violation {
    Violation { oracle: oracle.to_string(), sig: sig.to_string(), detail }
}

fn settings(n: usize, f: ShardingFunction) -> PoolSettings {
    let mut ps = PoolSettings::default();
    ps.shards = n;
    ps.sharding_function = f;
    ps.query_parser_enabled = true;
    ps.query_parser_read_write_splitting = true;
    ps.automatic_sharding_key = Some("data.id".to_string());
    ps.sharding_key_regex = Some(Regex::new(r"/\* sharding_key: (\d+) \*/").unwrap());
    ps.shard_id_regex = Some(Regex::new(r"/\* shard_id: (\d+) \*/").unwrap());
    ps
}

fn router(n: usize, f: ShardingFunction) -> QueryRouter {
    let mut qr = QueryRouter::new();
    qr.update_pool_settings(&settings(n, f));
    qr
}

fn reference(k: i64, n: usize, f: ShardingFunction) -> usize {
    match f {
        ShardingFunction::PgBigintHash => pghash::pg_partition(k, n as u64) as usize,
        ShardingFunction::Sha1 => pghash::sha1_shard(k, n as u64) as usize,
    }
}

/// Shard chosen by a routing path on a fresh router; Err = panic.
fn path_shard(path: &str, k: i64, n: usize, f: ShardingFunction) -> Result<Option<usize>, String> {
    guarded(|| {
        let mut qr = router(n, f);
        let infer = |qr: &mut QueryRouter, sql: &str| {
            let m = q(sql);
            if let Ok(ast) = qr.parse(&m) {
                let _ = qr.infer(&ast);
            }
        };
        match path {
            "set-quoted" => {
                qr.try_execute_command(&q(&format!("SET SHARDING KEY TO '{}'", k)));
            }
            "set-unquoted" => {
                qr.try_execute_command(&q(&format!("set sharding key to {};", k)));
            }
            "comment" => {
                qr.try_execute_command(&q(&format!("/* sharding_key: {} */ SELECT 1", k)));
            }
            "comment-parse" => {
                qr.try_execute_command(&bm(&wire::parse("", &format!("/* sharding_key: {} */ SELECT $1", k), &[])));
            }
            // the same statements at any size: padded past typical buffer / shortcut sizes
            "comment-long" => {
                qr.try_execute_command(&q(&format!("/* sharding_key: {} */ SELECT 1 /* {} */", k, "x".repeat(9000))));
            }
            "set-padded" => {
                qr.try_execute_command(&q(&format!("SET SHARDING KEY TO '{}'{}", k, " ".repeat(300))));
            }
            "where-long" => infer(&mut qr, &format!("SELECT * FROM data WHERE id = {} /* {} */", k, "x".repeat(9000))),
            "where" => infer(&mut qr, &format!("SELECT * FROM data WHERE id = {}", k)),
            "where-qualified" => infer(&mut qr, &format!("SELECT * FROM public.data WHERE data.id = {} AND v > 3", k)),
            "insert" => infer(&mut qr, &format!("INSERT INTO data (id, v) VALUES ({}, 'x')", k)),
            "update" => infer(&mut qr, &format!("UPDATE data SET v = 1 WHERE id = {}", k)),
            "delete" => infer(&mut qr, &format!("DELETE FROM data WHERE id = {}", k)),
            "join" => infer(&mut qr, &format!("SELECT * FROM data INNER JOIN t ON data.id = {} WHERE t.x > 1", k)),
            p if p.starts_with("bind") => {
                // bind-<fmt>-<pos>of<count>[-null]
                let parts: Vec<&str> = p.split('-').collect();
                let fmt = parts[1];
                let (pos, count) = {
                    let pc: Vec<usize> = parts[2].split("of").map(|x| x.parse().unwrap()).collect();
                    (pc[0], pc[1])
                };
                let with_null = parts.get(3) == Some(&"null");
                // only $pos is equated with the sharding key column
                let mut conds: Vec<String> = Vec::new();
                for i in 1..=count {
                    if i == pos {
                        conds.push(format!("id = ${}", i));
                    } else {
                        conds.push(format!("v > ${}", i));
                    }
                }
                let sql = format!("SELECT * FROM data WHERE {}", conds.join(" AND "));
                let pm = bm(&wire::parse("", &sql, &[]));
                if let Ok(ast) = qr.parse(&pm) {
                    let _ = qr.infer(&ast);
                }
                let key_bytes: Vec<u8> = match fmt {
                    "text" => k.to_string().into_bytes(),
                    "bin8" => k.to_be_bytes().to_vec(),
                    "bin4" => (k as i32).to_be_bytes().to_vec(),
                    "bin2" => (k as i16).to_be_bytes().to_vec(),
                    _ => unreachable!(),
                };
                let is_bin = fmt != "text";
                let mut params: Vec<Option<Vec<u8>>> = Vec::new();
                let mut formats: Vec<i16> = Vec::new();
                for i in 1..=count {
                    if i == pos {
                        params.push(Some(key_bytes.clone()));
                        formats.push(if is_bin { 1 } else { 0 });
                    } else if with_null && i == 1 {
                        params.push(None);
                        formats.push(0);
                    } else {
                        params.push(Some(format!("other{}", i).into_bytes()));
                        formats.push(0);
                    }
                }
                // one format code for all when uniform, else per parameter
                let fcodes: Vec<i16> = if count == 1 { vec![formats[0]] } else { formats };
                let b = bm(&wire::bind("", "", &fcodes, &params, &[]));
                qr.infer_shard_from_bind(&b);
            }
            _ => unreachable!("path {}", path),
        }
        qr.shard()
    })
}

pub fn key_grid(thorough: bool) -> Vec<i64> {
    let mut ks: BTreeSet<i64> = BTreeSet::new();
    for k in 0..=64i64 {
        ks.insert(k);
    }
    for p in [7u32, 8, 15, 16, 31, 32, 33, 40, 47, 48, 62] {
        let b = 1i64 << p;
        for d in [-2i64, -1, 0, 1, 2] {
            ks.insert(b + d);
        }
    }
    for k in [i64::MAX, i64::MAX - 1, 999_999_999_999_999_999, 1_000_000_000_000_000_000, 4_294_967_295, 4_294_967_296, 123_456_789_012, 9_007_199_254_740_993] {
        ks.insert(k);
    }
    let step = if thorough { 1 } else { 16 };
    let mut x: i64 = 0x9E37;
    for i in 0..4096 {
        x = x.wrapping_mul(6364136223846793005).wrapping_add(1442695040888963407);
        if i % step == 0 {
            ks.insert((x >> 1).abs());
        }
    }
    ks.into_iter().collect()
}

pub fn run(tier: &str) -> Part {
    silence_panics();
    QueryRouter::setup();
    let thorough = tier == "thorough";
    let mut part = Part { engine: "enum".into(), exhaustive: true, ..Default::default() };
    if let Err(e) = pghash::self_check() {
        part.machinery_errors.push(format!("reference self-check failed: {}", e));
        return part;
    }
    let mut found: Vec<(Violation, serde_json::Value, usize)> = Vec::new();
    let mut add = |v: Violation, input: serde_json::Value| {
        if let Some(f) = found.iter_mut().find(|f| f.0.sig == v.sig) {
            f.2 += 1;
        } else {
            let replay = json!({"engine": "enum", "property": "C06", "violation": v, "input": input});
            found.push((v, replay, 1));
        }
    };
    let mut evals: u64 = 0;
    let mut distinct: u64 = 0;

    // (1) every 32-bit value the hash consumes: full 64-bit combined hash through the public API
    let (lo, hi, stride): (u64, u64, u64) = if thorough { (0, 1 << 32, 1) } else { (0, 1 << 32, 64) };
    let threads = 16u64;
    let bad: Arc<Mutex<Vec<(u32, usize, usize, usize)>>> = Arc::new(Mutex::new(Vec::new()));
    let count = Arc::new(AtomicU64::new(0));
    let moduli: [usize; 3] = [usize::MAX, 1usize << 63, 1_000_003];
    let mut hs = Vec::new();
    for t in 0..threads {
        let bad = bad.clone();
        let count = count.clone();
        hs.push(std::thread::spawn(move || {
            let sharders: Vec<Sharder> = moduli.iter().map(|m| Sharder::new(*m, ShardingFunction::PgBigintHash)).collect();
            let mut k = lo + t * stride;
            let mut n = 0u64;
            while k < hi {
                let k32 = k as u32;
                let h = pghash::partition_hash_folded(k32);
                for (i, m) in moduli.iter().enumerate() {
                    let got = sharders[i].shard(k32 as i64);
                    let want = (h % (*m as u64)) as usize;
                    if got != want {
                        let mut b = bad.lock().unwrap();
                        if b.len() < 8 {
                            b.push((k32, *m, got, want));
                        }
                    }
                    n += 1;
                }
                k += threads * stride;
            }
            count.fetch_add(n, Ordering::Relaxed);
        }));
    }
    for h in hs {
        h.join().unwrap();
    }
    let n1 = count.load(Ordering::Relaxed);
    evals += n1;
    distinct += n1 / moduli.len() as u64;
    for (k32, m, got, want) in bad.lock().unwrap().iter() {
        add(
            vio("C06.hash32", "C06.hash32", format!("Sharder(m={}).shard({}) = {} but PostgreSQL's combined hash mod m = {}", m, k32, got, want)),
            json!({"k32": k32, "m": m.to_string()}),
        );
    }
    if !thorough {
        part.exhaustive = false;
        part.extra.insert("hash32_stride".into(), json!(stride));
    }

    // (2) fold of the two 32-bit halves, positive and negative keys
    let halves: Vec<u32> = {
        let mut v: BTreeSet<u32> = BTreeSet::new();
        for x in [0u32, 1, 2, 3, 0x7fff_ffff, 0x8000_0000, 0x8000_0001, 0xffff_ffff, 0xffff_fffe, 0x0000_ffff, 0xffff_0000, 0x5555_5555, 0xaaaa_aaaa] {
            v.insert(x);
        }
        let mut x: u32 = 12345;
        let n = if thorough { 2000 } else { 200 };
        for _ in 0..n {
            x = x.wrapping_mul(1664525).wrapping_add(1013904223);
            v.insert(x);
        }
        v.into_iter().collect()
    };
    let s_full = Sharder::new(usize::MAX, ShardingFunction::PgBigintHash);
    for hi in &halves {
        for lo in &halves {
            let key = (((*hi as u64) << 32) | (*lo as u64)) as i64;
            let want = (pghash::partition_hash_folded(pghash::fold(key)) % (usize::MAX as u64)) as usize;
            let got = s_full.shard(key);
            evals += 1;
            if got != want {
                add(
                    vio("C06.fold", "C06.fold", format!("key {} (hi {:#x} lo {:#x}): shard {} want {}", key, hi, lo, got, want)),
                    json!({"key": key}),
                );
            }
        }
    }
    distinct += (halves.len() * halves.len()) as u64;

    // (3) every modulus, both functions
    let keys = key_grid(thorough);
    let maxn = if thorough { 1024 } else { 64 };
    for f in [ShardingFunction::PgBigintHash, ShardingFunction::Sha1] {
        for n in 1..=maxn {
            let s = Sharder::new(n, f);
            for k in keys.iter().chain([-1i64, -2, -4_294_967_296, i64::MIN, i64::MIN + 1].iter()) {
                let got = s.shard(*k);
                let want = reference(*k, n, f);
                evals += 1;
                if got != want {
                    add(
                        vio("C06.modulus", &format!("C06.modulus:{}", f), format!("{} shard({}) with {} shards = {} want {}", f, k, n, got, want)),
                        json!({"key": k, "shards": n, "function": f.to_string()}),
                    );
                }
            }
        }
    }
    distinct += (keys.len() * maxn * 2) as u64;

    // (4) every routing path agrees with the reference whenever it accepts the key
    let mut paths: Vec<String> = ["set-quoted", "set-unquoted", "set-padded", "comment", "comment-long", "comment-parse", "where", "where-long", "where-qualified", "insert", "update", "delete", "join"].iter().map(|s| s.to_string()).collect();
    for fmt in ["text", "bin8", "bin4", "bin2"] {
        for (pos, count) in [(1usize, 1usize), (1, 2), (2, 2), (1, 3), (2, 3), (3, 3)] {
            paths.push(format!("bind-{}-{}of{}", fmt, pos, count));
        }
        paths.push(format!("bind-{}-2of2-null", fmt));
    }
    let mut dont_care = 0u64;
    let mut samples: Vec<serde_json::Value> = Vec::new();
    for f in [ShardingFunction::PgBigintHash, ShardingFunction::Sha1] {
        for n in [1usize, 2, 3, 5, 12] {
            for path in &paths {
                let mut ks: Vec<i64> = keys.clone();
                if path.starts_with("bind") {
                    ks.extend([-1i64, -7, -2_147_483_648, -4_294_967_297, i64::MIN]);
                }
                for k in ks {
                    // does this spelling carry the key for this path?
                    let fits = match path.as_str() {
                        p if p.contains("bin4") => k >= i32::MIN as i64 && k <= i32::MAX as i64,
                        p if p.contains("bin2") => k >= i16::MIN as i64 && k <= i16::MAX as i64,
                        p if p.starts_with("bind") => true,
                        _ => k >= 0,
                    };
                    if !fits {
                        continue;
                    }
                    evals += 1;
                    let want = reference(k, n, f);
                    match path_shard(path, k, n, f) {
                        Err(p) => add(
                            vio("C06.path-panic", &format!("C06.path-panic:{}", scrub_path(path)), format!("path {} key {} shards {}: panic: {}", path, k, n, p)),
                            json!({"path": path, "key": k, "shards": n}),
                        ),
                        Ok(None) => {
                            // the path did not recognise the key: falls to the default shard
                            if path.starts_with("bind") || path.starts_with("set") || path.starts_with("comment") || ["where", "where-long", "insert", "update", "delete", "join", "where-qualified"].contains(&path.as_str()) {
                                add(
                                    vio(
                                        "C06.path-miss",
                                        &format!("C06.path-miss:{}", scrub_path(path)),
                                        format!("path {} did not select any shard for key {} ({} shards, {}); expected shard {}", path, k, n, f, want),
                                    ),
                                    json!({"path": path, "key": k, "shards": n, "function": f.to_string()}),
                                );
                            } else {
                                dont_care += 1;
                            }
                        }
                        Ok(Some(got)) => {
                            if got != want {
                                add(
                                    vio(
                                        "C06.path-disagrees",
                                        &format!("C06.path-disagrees:{}", scrub_path(path)),
                                        format!("path {} key {} ({} shards, {}): routed to shard {}, PostgreSQL partition is {}", path, k, n, f, got, want),
                                    ),
                                    json!({"path": path, "key": k, "shards": n, "function": f.to_string()}),
                                );
                            }
                        }
                    }
                    if samples.len() < 3 && k == 4_294_967_296 {
                        samples.push(json!({"path": path, "key": k, "shards": n, "function": f.to_string(), "expected_shard": want}));
                    }
                }
            }
        }
    }
    distinct += (paths.len() * keys.len() * 10) as u64;

    // (5) statements that carry no sharding key must not select a shard from unrelated values
    for (name, sql, params) in [
        ("other-column-literal", "SELECT * FROM data WHERE v = 7", None),
        ("other-table-same-column", "SELECT * FROM other WHERE id = 7", None),
        ("other-column-placeholder", "SELECT * FROM data WHERE v = $1", Some(vec![Some(b"7".to_vec())])),
        ("other-table-placeholder", "SELECT * FROM other WHERE x = $1", Some(vec![Some(b"7".to_vec())])),
    ] {
        for n in [2usize, 5] {
            evals += 1;
            let r = guarded(|| {
                let mut qr = router(n, ShardingFunction::PgBigintHash);
                let m = if params.is_some() { bm(&wire::parse("", sql, &[])) } else { q(sql) };
                if let Ok(ast) = qr.parse(&m) {
                    let _ = qr.infer(&ast);
                }
                if let Some(p) = &params {
                    qr.infer_shard_from_bind(&bm(&wire::bind("", "", &[], p, &[])));
                }
                qr.shard()
            });
            match r {
                Ok(None) => {}
                Ok(Some(s)) => add(
                    vio(
                        "C06.no-key-selected",
                        &format!("C06.no-key-selected:{}", name),
                        format!("`{}` carries no value for the sharding key data.id, yet the router selected shard {} (of {})", sql, s, n),
                    ),
                    json!({"sql": sql, "shards": n}),
                ),
                Err(p) => add(vio("C06.no-key-panic", &format!("C06.no-key-panic:{}", name), format!("`{}`: panic {}", sql, p)), json!({"sql": sql})),
            }
        }
    }

    // (6) histories: the selection is sticky until changed (router level)
    let cmds: Vec<(&str, Option<usize>)> = vec![
        ("SET SHARDING KEY TO '7'", Some(pghash::pg_partition(7, 5) as usize)),
        ("SET SHARD TO '3'", Some(3)),
        ("SET SHARD TO 0", Some(0)),
        ("/* shard_id: 4 */ SELECT 1", Some(4)),
        ("/* sharding_key: 123456789012 */ SELECT 1", Some(pghash::pg_partition(123456789012, 5) as usize)),
        ("SELECT * FROM data WHERE id = 41", Some(pghash::pg_partition(41, 5) as usize)),
        ("SELECT 1", None),
        ("SELECT * FROM data WHERE v = 'x'", None),
        ("SHOW SHARD", None),
        // extended protocol: Parse of the text before `<-`, then Bind of the parameters after it
        ("SELECT * FROM data WHERE id = $1 <- 41", Some(pghash::pg_partition(41, 5) as usize)),
        ("SELECT * FROM data WHERE id = $1 <- 7", Some(pghash::pg_partition(7, 5) as usize)),
        ("SELECT * FROM data WHERE id = $1 <- NULL", None),
        ("SELECT * FROM data WHERE id = $1 <- abc", None),
        ("SELECT * FROM data WHERE v = $1 <- 41", None),
        ("SELECT * FROM other WHERE x = $1 AND y = $2 <- 7,8", None),
    ];
    let depth = if thorough { 4 } else { 3 };
    let mut seqs: Vec<Vec<usize>> = vec![vec![]];
    let mut states: BTreeSet<Option<usize>> = BTreeSet::new();
    let mut transitions: BTreeSet<(Option<usize>, usize, Option<usize>)> = BTreeSet::new();
    for _ in 0..depth {
        let mut next = Vec::new();
        for s in &seqs {
            for c in 0..cmds.len() {
                let mut t = s.clone();
                t.push(c);
                next.push(t);
            }
        }
        for seq in &next {
            evals += 1;
            let r = guarded(|| {
                let mut qr = router(5, ShardingFunction::PgBigintHash);
                let mut model: Option<usize> = None;
                let mut trace = Vec::new();
                for c in seq {
                    let (sql, eff) = cmds[*c];
                    let before = model;
                    if let Some((text, params)) = sql.split_once(" <- ") {
                        let m = bm(&wire::parse("", text, &[]));
                        if let Ok(ast) = qr.parse(&m) {
                            let _ = qr.infer(&ast);
                        }
                        let ps: Vec<Option<Vec<u8>>> = params.split(',').map(|p| if p == "NULL" { None } else { Some(p.as_bytes().to_vec()) }).collect();
                        qr.infer_shard_from_bind(&bm(&wire::bind("", "", &[], &ps, &[])));
                    } else {
                        let m = q(sql);
                        if qr.try_execute_command(&m).is_none() {
                            if let Ok(ast) = qr.parse(&m) {
                                let _ = qr.infer(&ast);
                            }
                        }
                    }
                    if let Some(s) = eff {
                        model = Some(s);
                    }
                    trace.push((before, *c, model, qr.shard()));
                    if qr.shard() != model {
                        return (Some(format!("after {:?}: router shard {:?}, reference {:?}", seq.iter().map(|c| cmds[*c].0).collect::<Vec<_>>(), qr.shard(), model)), trace);
                    }
                }
                (None, trace)
            });
            match r {
                Ok((None, trace)) => {
                    for (b, c, a, _) in trace {
                        states.insert(a);
                        transitions.insert((b, c, a));
                    }
                }
                Ok((Some(msg), _)) => add(vio("C06.history", "C06.history", msg), json!({"sequence": seq.iter().map(|c| cmds[*c].0).collect::<Vec<_>>()})),
                Err(p) => add(vio("C06.history-panic", "C06.history-panic", format!("{:?}: {}", seq, p)), json!({"sequence": seq})),
            }
        }
        seqs = next;
    }
    samples.push(json!({"kind": "history", "sequence": ["SET SHARD TO '3'", "SELECT 1", "SELECT * FROM data WHERE id = 41"], "expected_final_shard": pghash::pg_partition(41, 5)}));
    samples.push(json!({"kind": "hash32", "k32": 4294967295u32, "reference_combined_hash": pghash::partition_hash_folded(4294967295).to_string()}));

    part.states = states.len() as u64 + distinct;
    part.transitions = transitions.len() as u64 + evals;
    part.traces = evals;
    part.evaluations = evals;
    part.distinct = distinct;
    part.samples = samples;
    part.violations = found;
    part.extra.insert("router_selection_states".into(), json!(states.len()));
    part.extra.insert("router_selection_transitions".into(), json!(transitions.len()));
    part.extra.insert("dont_care".into(), json!(dont_care));
    part.extra.insert("hash32_values_checked".into(), json!(n1 / moduli.len() as u64));
    part.rule = format!(
        "hash: every {}th of the 2^32 folded inputs x moduli {{2^64-1, 2^63, 1000003}} through Sharder::shard vs an independent transcription of hashint8extended/hash_combine64 (self-checked on the 50 recorded PostgreSQL partitions); fold on a {}x{} grid of halves; moduli 1..{} x {} keys x both functions; {} routing paths x keys x shard counts {{1,2,3,5,12}} x both functions; key-less statements; all histories to depth {} over commands, comments, literals and extended-protocol Parse+Bind pairs (key bound to a number / NULL / text, key-less statements with parameters); a state = one evaluated input / router selection state, a transition = one evaluation / router step",
        stride,
        halves.len(),
        halves.len(),
        maxn,
        keys.len(),
        paths.len(),
        depth
    );
    part.assumptions = vec![
        "no PostgreSQL binary offline: the oracle is a transcription of hashfn.c/partbounds.c validated against the repository's recorded real-server output".into(),
        "negative literals (unary minus) and unsupported operators are don't-cares for the literal paths".into(),
    ];
    part
}

fn scrub_path(p: &str) -> String {
    p.to_string()
}
