//! C19 (enum part): table_access denies every statement that refers to a listed
//! table in any position and spelling PostgreSQL resolves to it; intercept
//! returns exactly the configured rows; disabled plugins block nothing.

use super::sqlgen::{render, Mention, SHAPES};
use super::{bm, guarded, q, silence_panics};
use crate::explore::Violation;
use crate::report::Part;
use crate::wire;
use pgcat::config::{Intercept, Plugins, Query, TableAccess};
use pgcat::plugins::PluginOutput;
use pgcat::pool::PoolSettings;
use pgcat::query_router::QueryRouter;
use serde_json::json;
use std::collections::BTreeMap;

pub const LISTED: &[&str] = &["pg_user", "secret"];

/// (spelling, resolves to a listed table under PostgreSQL identifier folding?) ; None = don't care
pub const SPELLINGS: &[(&str, Option<bool>)] = &[
    ("pg_user", Some(true)),
    ("PG_USER", Some(true)),
    ("Pg_User", Some(true)),
    ("\"pg_user\"", Some(true)),
    ("pg_catalog.pg_user", Some(true)),
    ("PG_CATALOG.PG_USER", Some(true)),
    ("\"pg_catalog\".\"pg_user\"", Some(true)),
    ("postgres.pg_catalog.pg_user", Some(true)),
    ("secret", Some(true)),
    ("public.SECRET", Some(true)),
    ("\"PG_USER\"", None), // a different table; blocking it would be over-eager, not a violation
    ("pg_user2", Some(false)),
    ("my_pg_user", Some(false)),
    ("other", Some(false)),
    ("pg_user.other", Some(false)),
    ("\"secret table\"", Some(false)),
];

pub const INTERCEPT_QUERY_UPPER: &str = "SELECT Version_Info() AS v";
pub const INTERCEPT_QUERY: &str = "select current_database() as a, current_schemas(false) as b";

fn plugins(table_access: Option<bool>, intercept: Option<bool>) -> Option<Plugins> {
    let mut queries = BTreeMap::new();
    queries.insert(
        "0".to_string(),
        Query {
            query: INTERCEPT_QUERY.to_string(),
            schema: vec![vec!["a".into(), "text".into()], vec!["b".into(), "text".into()]],
            result: vec![vec!["${DATABASE}".into(), "{public}".into()], vec!["second".into(), "".into()]],
        },
    );
    // a second rule whose configured text is written with upper-case letters
    queries.insert(
        "1".to_string(),
        Query { query: INTERCEPT_QUERY_UPPER.to_string(), schema: vec![vec!["v".into(), "text".into()]], result: vec![vec!["v1".into()]] },
    );
    Some(Plugins {
        intercept: intercept.map(|e| Intercept { enabled: e, queries }),
        table_access: table_access.map(|e| TableAccess { enabled: e, tables: LISTED.iter().map(|s| s.to_string()).collect() }),
        query_logger: None,
        prewarmer: None,
    })
}

fn settings(p: Option<Plugins>) -> PoolSettings {
    let mut ps = PoolSettings::default();
    ps.query_parser_enabled = true;
    ps.plugins = p;
    ps.db = "mydb".into();
    ps
}

fn vio(oracle: &str, sig: String, detail: String) -> Violation {
    Violation { oracle: oracle.to_string(), sig, detail }
}

#[derive(Debug, PartialEq)]
enum Verdict {
    Allow,
    Deny,
    Intercept(Vec<u8>),
    Rejected,
}

fn verdict(ps: &PoolSettings, msg: &bytes::BytesMut) -> Result<Verdict, String> {
    guarded(|| {
        let mut qr = QueryRouter::new();
        qr.update_pool_settings(ps);
        match qr.parse(msg) {
            Err(_) => Verdict::Rejected,
            Ok(ast) => match futures::executor::block_on(qr.execute_plugins(&ast)) {
                Ok(PluginOutput::Deny(_)) => Verdict::Deny,
                Ok(PluginOutput::Intercept(b)) => Verdict::Intercept(b.to_vec()),
                _ => Verdict::Allow,
            },
        }
    })
}

pub fn run(tier: &str) -> Part {
    silence_panics();
    QueryRouter::setup();
    let thorough = tier == "thorough";
    let mut part = Part { engine: "enum".into(), exhaustive: true, ..Default::default() };
    let mut found: Vec<(Violation, serde_json::Value, usize)> = Vec::new();
    let mut add = |v: Violation, input: serde_json::Value| {
        if let Some(f) = found.iter_mut().find(|f| f.0.sig == v.sig) {
            f.2 += 1;
        } else {
            let replay = json!({"engine": "enum", "property": "C19", "violation": v, "input": input});
            found.push((v, replay, 1));
        }
    };
    let mut evals = 0u64;
    let mut rejected = 0u64;
    let mut dont_care = 0u64;
    let enabled = settings(plugins(Some(true), Some(true)));
    let disabled = settings(plugins(Some(false), Some(false)));
    let absent = settings(None);
    let innocent = ["SELECT 1", "SELECT * FROM other WHERE a = 1", "INSERT INTO other VALUES (1)"];

    let spelling_class = |sp: &str| -> &'static str {
        if sp.contains('"') {
            "quoted"
        } else if sp.chars().any(|c| c.is_ascii_uppercase()) {
            "uppercase"
        } else if sp.contains('.') {
            "qualified"
        } else {
            "plain"
        }
    };

    for shape in SHAPES {
        for (sp, resolves) in SPELLINGS {
            let bare = LISTED[0];
            let sql = render(shape, sp, bare);
            // position 1/2/3 in a multi-statement message, and as Parse
            let mut variants: Vec<(String, &str)> = vec![(sql.clone(), "single"), (format!("{}; {}", innocent[0], sql), "second"), (format!("{}; {}", sql, innocent[1]), "first-of-two")];
            // statements of any size
            variants.push((format!("{} /* {} */", sql, "x".repeat(300)), "single-pad300"));
            variants.push((format!("{}{}", " ".repeat(9000), sql), "single-pad9000"));
            if thorough {
                variants.push((format!("{}; {}; {}", innocent[0], innocent[2], sql), "third"));
                variants.push((format!("{}; {}; {}", innocent[1], sql, innocent[0]), "middle"));
            }
            for (text, pos) in variants {
                for proto in ["Q", "P"] {
                    let m = if proto == "Q" { q(&text) } else { bm(&wire::parse("", &text, &[])) };
                    evals += 1;
                    // plugins disabled / absent: nothing is blocked or intercepted
                    for (ps, what) in [(&disabled, "disabled"), (&absent, "absent")] {
                        match verdict(ps, &m) {
                            Ok(Verdict::Allow) | Ok(Verdict::Rejected) => {}
                            Ok(other) => add(
                                vio("C19.blocked-when-disabled", format!("C19.blocked-when-{}", what), format!("plugins {}: {:?} got {:?}", what, text, other)),
                                json!({"sql": text, "plugins": what}),
                            ),
                            Err(p) => add(vio("C19.panic", format!("C19.panic:{}", shape.name), format!("{:?}: panic {}", text, p)), json!({"sql": text})),
                        }
                    }
                    match verdict(&enabled, &m) {
                        Err(p) => add(vio("C19.panic", format!("C19.panic:{}", shape.name), format!("{:?}: panic {}", text, p)), json!({"sql": text})),
                        Ok(Verdict::Rejected) => rejected += 1,
                        Ok(got) => {
                            let must_deny = shape.mention == Mention::Yes && *resolves == Some(true);
                            let must_allow = (shape.mention == Mention::No || *resolves == Some(false)) && shape.mention != Mention::Unclear;
                            if must_deny && got != Verdict::Deny {
                                add(
                                    vio(
                                        "C19.not-denied",
                                        format!("C19.not-denied:{}:{}", shape.name, spelling_class(sp)),
                                        format!("{} message {:?} refers to listed table via {:?} ({}, position {}) but the plugins returned {:?}", proto, text, sp, shape.name, pos, got),
                                    ),
                                    json!({"sql": text, "protocol": proto, "spelling": sp, "shape": shape.name}),
                                );
                            } else if must_allow && got != Verdict::Allow {
                                // only flag statements that cannot be read as touching a listed table at all
                                if *sp == "other" || shape.mention == Mention::No && !text.contains("pg_user") && !text.contains("secret") {
                                    add(
                                        vio("C19.over-blocked", format!("C19.over-blocked:{}", shape.name), format!("{:?} does not touch a listed table but got {:?}", text, got)),
                                        json!({"sql": text}),
                                    );
                                } else {
                                    dont_care += 1;
                                }
                            } else if !must_deny && !must_allow {
                                dont_care += 1;
                            }
                        }
                    }
                }
            }
        }
    }

    // intercept: exactly the configured rows for the configured query in any case/whitespace; near misses pass
    let mut expected = Vec::new();
    expected.extend_from_slice(&{
        // RowDescription for (a text, b text)
        let mut b = 2i16.to_be_bytes().to_vec();
        for name in ["a", "b"] {
            b.extend_from_slice(name.as_bytes());
            b.push(0);
            b.extend_from_slice(&0i32.to_be_bytes());
            b.extend_from_slice(&0i16.to_be_bytes());
            b.extend_from_slice(&25i32.to_be_bytes());
            b.extend_from_slice(&(-1i16).to_be_bytes());
            b.extend_from_slice(&(-1i32).to_be_bytes());
            b.extend_from_slice(&0i16.to_be_bytes());
        }
        wire::msg(b'T', &b)
    });
    expected.extend(wire::data_row(&[b"mydb", b"{public}"]));
    {
        // second row: empty string is configured as NULL
        let mut b = 2i16.to_be_bytes().to_vec();
        b.extend_from_slice(&6i32.to_be_bytes());
        b.extend_from_slice(b"second");
        b.extend_from_slice(&(-1i32).to_be_bytes());
        expected.extend(wire::msg(b'D', &b));
    }
    expected.extend(wire::command_complete("SELECT"));
    expected.extend(wire::ready(b'I'));
    let hits = [
        INTERCEPT_QUERY.to_string(),
        INTERCEPT_QUERY.to_uppercase(),
        "SELECT current_database() AS a, current_schemas(false) AS b".to_string(),
        "select   current_database()  as a ,\n current_schemas(false) as b ;".to_string(),
    ];
    let misses = [
        "select current_database() as a".to_string(),
        "select current_database() as a, current_schemas(true) as b".to_string(),
        "select current_database() as a, current_schemas(false) as b, 1".to_string(),
        "select current_database() as a, current_schemas(false) as c".to_string(),
        format!("select '{}'", INTERCEPT_QUERY),
    ];
    for h in &hits {
        evals += 1;
        match verdict(&enabled, &q(h)) {
            Ok(Verdict::Intercept(b)) => {
                if b != expected {
                    add(
                        vio("C19.intercept-rows", "C19.intercept-rows".into(), format!("intercepted {:?} but the reply differs from the configured rows ({} vs {} bytes)", h, b.len(), expected.len())),
                        json!({"sql": h}),
                    );
                }
            }
            other => add(vio("C19.not-intercepted", "C19.not-intercepted".into(), format!("{:?} matches the intercept rule but got {:?}", h, other)), json!({"sql": h})),
        }
        match verdict(&disabled, &q(h)) {
            Ok(Verdict::Allow) => {}
            other => add(vio("C19.intercepted-when-disabled", "C19.intercepted-when-disabled".into(), format!("{:?} with plugins disabled got {:?}", h, other)), json!({"sql": h})),
        }
    }
    // the rule written with upper-case letters, asked in three spellings
    let mut expected2 = Vec::new();
    {
        let mut b = 1i16.to_be_bytes().to_vec();
        b.extend_from_slice(b"v");
        b.push(0);
        b.extend_from_slice(&0i32.to_be_bytes());
        b.extend_from_slice(&0i16.to_be_bytes());
        b.extend_from_slice(&25i32.to_be_bytes());
        b.extend_from_slice(&(-1i16).to_be_bytes());
        b.extend_from_slice(&(-1i32).to_be_bytes());
        b.extend_from_slice(&0i16.to_be_bytes());
        expected2.extend(wire::msg(b'T', &b));
    }
    expected2.extend(wire::data_row(&[b"v1"]));
    expected2.extend(wire::command_complete("SELECT"));
    expected2.extend(wire::ready(b'I'));
    for h in [INTERCEPT_QUERY_UPPER.to_string(), INTERCEPT_QUERY_UPPER.to_lowercase(), INTERCEPT_QUERY_UPPER.to_uppercase()] {
        evals += 1;
        match verdict(&enabled, &q(&h)) {
            Ok(Verdict::Intercept(b)) => {
                if b != expected2 {
                    add(vio("C19.intercept-rows", "C19.intercept-rows:upper-case-rule".into(), format!("intercepted {:?} but the reply differs from the configured rows", h)), json!({"sql": h}));
                }
            }
            other => add(
                vio("C19.not-intercepted", "C19.not-intercepted:upper-case-rule".into(), format!("{:?} matches the intercept rule {:?} but got {:?}", h, INTERCEPT_QUERY_UPPER, other)),
                json!({"sql": h}),
            ),
        }
    }
    for m in &misses {
        evals += 1;
        match verdict(&enabled, &q(m)) {
            Ok(Verdict::Allow) | Ok(Verdict::Rejected) => {}
            other => add(vio("C19.wrongly-intercepted", "C19.wrongly-intercepted".into(), format!("{:?} is not the configured query but got {:?}", m, other)), json!({"sql": m})),
        }
    }

    part.states = evals;
    part.transitions = evals;
    part.evaluations = evals * 3;
    part.traces = evals * 3;
    part.distinct = evals;
    part.samples = vec![
        json!({"sql": "SELECT * FROM other o LEFT JOIN \"pg_catalog\".\"pg_user\" r ON o.id = r.id", "required": "Deny"}),
        json!({"sql": "SELECT 1; WITH c AS (SELECT * FROM PG_USER) SELECT * FROM c", "required": "Deny"}),
        json!({"sql": "SELECT 'pg_user'", "required": "Allow"}),
    ];
    part.violations = found;
    part.extra.insert("parser_rejected_dont_care".into(), json!(rejected));
    part.extra.insert("dont_care".into(), json!(dont_care));
    part.rule = format!(
        "{} statement shapes x {} identifier spellings (case, quoting, schema/catalog qualification, look-alikes) x positions (single, single padded to 300 B / 9 KB, first, second{}) x Query/Parse, under plugins enabled / disabled / absent; reference = PostgreSQL identifier folding on the last path component; two intercept rules (one written in lower case, one with upper-case letters) in 4 + 3 spellings and 5 near misses with byte-exact expected rows",
        SHAPES.len(),
        SPELLINGS.len(),
        if thorough { ", middle, third" } else { "" }
    );
    part.assumptions = vec!["statements the pooler's parser rejects are don't-cares; a quoted upper-case name is a different table (don't-care)".into()];
    part
}
