//! C13 (enum part): the SET/SHOW routing commands are a small exact language.

use super::{bm, guarded, q, silence_panics};
use crate::enumc::pghash;
use crate::explore::Violation;
use crate::report::Part;
use crate::wire;
use pgcat::config::Role;
use pgcat::pool::PoolSettings;
use pgcat::query_router::QueryRouter;
use serde_json::json;
use std::collections::BTreeSet;
use std::sync::{Arc, Mutex};

#[derive(Clone, Debug, PartialEq, Eq)]
pub enum Cmd {
    SetShardingKey(String),
    SetShard(String),
    SetServerRole(String),
    SetPrimaryReads(String),
    ShowShard,
    ShowServerRole,
    ShowPrimaryReads,
}

#[derive(Clone, Debug, PartialEq, Eq)]
pub enum Class {
    /// canonical documented spelling: must be handled by the pooler
    MustHandle(Cmd),
    /// outside any reading of the documented language: must be forwarded untouched
    MustForward,
    /// inside a generous superset but not canonical: either behaviour accepted
    DontCare,
}

fn parse_words(words: &[String]) -> Option<Cmd> {
    let up: Vec<String> = words.iter().map(|w| w.to_ascii_uppercase()).collect();
    let u: Vec<&str> = up.iter().map(|s| s.as_str()).collect();
    match u.as_slice() {
        ["SHOW", "SHARD"] => Some(Cmd::ShowShard),
        ["SHOW", "SERVER", "ROLE"] => Some(Cmd::ShowServerRole),
        ["SHOW", "PRIMARY", "READS"] => Some(Cmd::ShowPrimaryReads),
        ["SET", "SHARDING", "KEY", "TO", v] if v.chars().all(|c| c.is_ascii_digit()) && !v.is_empty() => Some(Cmd::SetShardingKey(v.to_string())),
        ["SET", "SHARD", "TO", v] if (v.chars().all(|c| c.is_ascii_digit()) && !v.is_empty()) || *v == "ANY" => Some(Cmd::SetShard(v.to_string())),
        ["SET", "SERVER", "ROLE", "TO", v] if ["PRIMARY", "REPLICA", "ANY", "AUTO", "DEFAULT"].contains(v) => Some(Cmd::SetServerRole(v.to_ascii_lowercase())),
        ["SET", "PRIMARY", "READS", "TO", v] if ["ON", "OFF", "DEFAULT"].contains(v) => Some(Cmd::SetPrimaryReads(v.to_ascii_lowercase())),
        _ => None,
    }
}

/// Reference recogniser, written from README/CONFIG and the property text.
pub fn classify(s: &str) -> Class {
    // generous superset: any whitespace, quotes anywhere, one optional trailing semicolon
    let loose: String = s.chars().map(|c| if c == '\'' { ' ' } else { c }).collect();
    let loose = loose.trim_matches(|c: char| c.is_whitespace());
    let loose = loose.strip_suffix(';').unwrap_or(loose);
    let loose_words: Vec<String> = loose.split_whitespace().map(|w| w.to_string()).collect();
    let in_superset = parse_words(&loose_words).is_some() && !s.contains('"');
    if !in_superset {
        return Class::MustForward;
    }
    // canonical: spaces only, single space between words, value optionally in balanced single quotes
    // (quotes mandatory for the role word as documented), optional spaces and one ';' at the end
    let t = s.trim_matches(' ');
    let t = t.strip_suffix(';').map(|x| x.trim_end_matches(' ')).unwrap_or(t);
    if t.contains('\t') || t.contains('\n') || t.contains(';') || t.contains("  ") {
        return Class::DontCare;
    }
    let parts: Vec<&str> = t.split(' ').collect();
    if parts.iter().any(|p| p.is_empty()) {
        return Class::DontCare;
    }
    let mut words: Vec<String> = Vec::new();
    let n = parts.len();
    let mut quoted_value = false;
    for (i, p) in parts.iter().enumerate() {
        if i == n - 1 && p.len() >= 2 && p.starts_with('\'') && p.ends_with('\'') && !p[1..p.len() - 1].contains('\'') {
            words.push(p[1..p.len() - 1].to_string());
            quoted_value = true;
        } else if p.contains('\'') {
            return Class::DontCare;
        } else {
            words.push(p.to_string());
        }
    }
    match parse_words(&words) {
        Some(Cmd::SetServerRole(_)) if !quoted_value => Class::DontCare,
        // a number that is not a bigint / not a shard index is not a usable argument: the pooler may
        // answer it itself or let the server reject it, but the client must get a well-formed reply
        Some(Cmd::SetShardingKey(v)) if v.parse::<i64>().is_err() => Class::DontCare,
        Some(Cmd::SetShard(v)) if v != "ANY" && v.parse::<u32>().is_err() => Class::DontCare,
        Some(c) => {
            if quoted_value && matches!(c, Cmd::ShowShard | Cmd::ShowServerRole | Cmd::ShowPrimaryReads) {
                return Class::DontCare;
            }
            Class::MustHandle(c)
        }
        None => Class::DontCare,
    }
}

pub const VOCAB: &[&str] = &[
    "SET", "set", "SHOW", "show", "SHARD", "SHARDING", "KEY", "SERVER", "ROLE", "PRIMARY", "READS", "TO", "to", " ", "  ", "\t", "\n", "'", "\"", ";", "0", "1", "99",
    "12345678901234567890", "ANY", "any", "Any", "primary", "REPLICA", "auto", "default", "on", "OFF", "SELECT 1", "--x", "/*x*/", "x",
];

/// Arguments and padding of "any length": zero-padded numbers and long runs of spaces at the ends.
pub const Z70: &str = "0000000000000000000000000000000000000000000000000000000000000000000000";
pub const Z69_1: &str = "0000000000000000000000000000000000000000000000000000000000000000000001";
pub const SP80: &str = "                                                                                ";

pub fn canonical_spellings() -> Vec<Vec<&'static str>> {
    let mut v: Vec<Vec<&'static str>> = Vec::new();
    for val in [Z70, Z69_1] {
        v.push(vec!["SET", " ", "SHARD", " ", "TO", " ", val]);
        v.push(vec!["set", " ", "shard", " ", "to", " ", "'", val, "'", ";"]);
        v.push(vec!["SET", " ", "SHARDING", " ", "KEY", " ", "TO", " ", "'", val, "'"]);
    }
    v.push(vec!["SHOW", " ", "SHARD", SP80, ";"]);
    v.push(vec![SP80, "SHOW", " ", "SERVER", " ", "ROLE"]);
    v.push(vec![SP80, "SET", " ", "SERVER", " ", "ROLE", " ", "TO", " ", "'", "replica", "'", SP80]);
    v.push(vec!["SET", " ", "PRIMARY", " ", "READS", " ", "TO", " ", "off", SP80, ";", SP80]);
    for val in ["0", "1", "99", "12345678901234567890"] {
        v.push(vec!["SET", " ", "SHARDING", " ", "KEY", " ", "TO", " ", "'", val, "'"]);
        v.push(vec!["set", " ", "sharding", " ", "key", " ", "to", " ", val, ";"]);
        v.push(vec!["SET", " ", "SHARD", " ", "TO", " ", "'", val, "'", ";"]);
        v.push(vec!["SET", " ", "SHARD", " ", "TO", " ", val]);
    }
    v.push(vec!["SET", " ", "SHARD", " ", "TO", " ", "ANY"]);
    v.push(vec![" ", "set", " ", "shard", " ", "to", " ", "'", "any", "'", " ", ";", " "]);
    // mixed letter case in keywords and in keyword-valued arguments
    for a in ["Any", "aNY", "anY"] {
        v.push(vec!["SET", " ", "SHARD", " ", "TO", " ", a]);
        v.push(vec!["Set", " ", "Shard", " ", "To", " ", "'", a, "'", ";"]);
        v.push(vec!["SET", " ", "SERVER", " ", "ROLE", " ", "TO", " ", "'", a, "'"]);
    }
    for r in ["Primary", "rEPLICA", "Auto", "deFault"] {
        v.push(vec!["sEt", " ", "sErver", " ", "rOle", " ", "tO", " ", "'", r, "'"]);
    }
    for p in ["On", "oFF", "Default"] {
        v.push(vec!["Set", " ", "Primary", " ", "Reads", " ", "To", " ", p]);
    }
    v.push(vec!["Show", " ", "Shard"]);
    v.push(vec!["sHOW", " ", "Server", " ", "Role", ";"]);
    v.push(vec!["shoW", " ", "primarY", " ", "readS"]);
    for r in ["primary", "REPLICA", "any", "auto", "default"] {
        v.push(vec!["SET", " ", "SERVER", " ", "ROLE", " ", "TO", " ", "'", r, "'"]);
        v.push(vec!["set", " ", "server", " ", "role", " ", "to", " ", "'", r, "'", ";"]);
    }
    for p in ["on", "OFF", "default"] {
        v.push(vec!["SET", " ", "PRIMARY", " ", "READS", " ", "TO", " ", p]);
        v.push(vec!["SET", " ", "PRIMARY", " ", "READS", " ", "TO", " ", "'", p, "'", ";"]);
    }
    v.push(vec!["SHOW", " ", "SHARD"]);
    v.push(vec!["show", " ", "shard", ";"]);
    v.push(vec!["SHOW", " ", "SERVER", " ", "ROLE"]);
    v.push(vec!["SHOW", " ", "PRIMARY", " ", "READS", " ", ";"]);
    v
}

fn settings(shards: usize, default_role: Option<Role>, parser: bool, primary_reads: bool) -> PoolSettings {
    let mut ps = PoolSettings::default();
    ps.shards = shards;
    ps.default_role = default_role;
    ps.query_parser_enabled = parser;
    ps.query_parser_read_write_splitting = parser;
    ps.primary_reads_enabled = primary_reads;
    ps
}

/// Reference state of the session-level routing settings.
#[derive(Clone, Debug, PartialEq, Eq, PartialOrd, Ord)]
pub struct Model {
    pub shard: Option<usize>,
    /// None = unknown (after ANY)
    pub shard_known: bool,
    pub role: String, // "primary" "replica" "any" "auto" or pool default spelled likewise
    pub primary_reads: bool,
}

pub fn default_role_name(default_role: Option<Role>, parser: bool) -> String {
    match default_role {
        Some(Role::Primary) => "primary".into(),
        Some(Role::Replica) => "replica".into(),
        _ => {
            if parser {
                "auto".into()
            } else {
                "any".into()
            }
        }
    }
}

pub fn apply(m: &mut Model, c: &Cmd, shards: usize, default_role: Option<Role>, parser: bool, primary_reads_default: bool) -> Option<String> {
    match c {
        Cmd::SetShardingKey(v) => {
            match v.parse::<i64>() {
                Ok(k) => {
                    m.shard = Some(pghash::pg_partition(k, shards as u64) as usize);
                    m.shard_known = true;
                }
                Err(_) => {
                    // not a bigint: behaviour unspecified beyond "well-formed reply"; selection unknown
                    m.shard_known = false;
                }
            }
            None
        }
        Cmd::SetShard(v) => {
            if v == "ANY" {
                m.shard_known = false;
            } else {
                match v.parse::<usize>() {
                    Ok(n) => {
                        m.shard = Some(n);
                        m.shard_known = true;
                    }
                    Err(_) => m.shard_known = false,
                }
            }
            None
        }
        Cmd::SetServerRole(r) => {
            m.role = if r == "default" { default_role_name(default_role, parser) } else { r.clone() };
            None
        }
        Cmd::SetPrimaryReads(p) => {
            m.primary_reads = match p.as_str() {
                "on" => true,
                "off" => false,
                _ => primary_reads_default,
            };
            None
        }
        Cmd::ShowShard => {
            if m.shard_known {
                Some(m.shard.map(|s| s.to_string()).unwrap_or_else(|| "unset".into()))
            } else {
                Some("?".into())
            }
        }
        Cmd::ShowServerRole => Some(m.role.clone()),
        Cmd::ShowPrimaryReads => Some(if m.primary_reads { "on".into() } else { "off".into() }),
    }
}

fn vio(oracle: &str, sig: &str, detail: String) -> Violation {
    Violation { oracle: oracle.to_string(), sig: sig.to_string(), detail }
}

fn value_class(s: &str) -> &'static str {
    if s.contains("12345678901234567890") {
        "long-number"
    } else {
        "short"
    }
}

pub fn run(tier: &str) -> Part {
    silence_panics();
    QueryRouter::setup();
    let thorough = tier == "thorough";
    let mut part = Part { engine: "enum".into(), exhaustive: true, ..Default::default() };
    let found: Arc<Mutex<Vec<(Violation, serde_json::Value, usize)>>> = Arc::new(Mutex::new(Vec::new()));
    let add = |found: &Arc<Mutex<Vec<(Violation, serde_json::Value, usize)>>>, v: Violation, input: serde_json::Value| {
        let mut f = found.lock().unwrap();
        if let Some(e) = f.iter_mut().find(|e| e.0.sig == v.sig) {
            e.2 += 1;
        } else {
            let replay = json!({"engine": "enum", "property": "C13", "violation": v, "input": input});
            f.push((v, replay, 1));
        }
    };

    // ---- the string space ----
    let mut strings: BTreeSet<String> = BTreeSet::new();
    let maxlen = if thorough { 4 } else { 3 };
    // (a) all strings of <= maxlen tokens
    let mut cur: Vec<String> = vec![String::new()];
    for _ in 0..maxlen {
        let mut next = Vec::new();
        for c in &cur {
            for t in VOCAB {
                let s = format!("{}{}", c, t);
                next.push(s);
            }
        }
        for s in &next {
            strings.insert(s.clone());
        }
        cur = next;
    }
    // (b) every canonical spelling and all its single (thorough: double) token perturbations
    let canon = canonical_spellings();
    let mut frontier: Vec<Vec<&str>> = canon.clone();
    let rounds = if thorough { 2 } else { 1 };
    for round in 0..rounds {
        let mut next: Vec<Vec<&str>> = Vec::new();
        for sp in &frontier {
            strings.insert(sp.concat());
            for i in 0..=sp.len() {
                for t in VOCAB {
                    let mut v = sp.clone();
                    v.insert(i, t);
                    next.push(v);
                }
            }
            for i in 0..sp.len() {
                let mut v = sp.clone();
                v.remove(i);
                next.push(v.clone());
                for t in VOCAB {
                    let mut v = sp.clone();
                    v[i] = t;
                    next.push(v);
                }
            }
        }
        for v in &next {
            strings.insert(v.concat());
        }
        if round + 1 < rounds {
            // second round only from a thinned frontier to keep the space bounded
            frontier = next.into_iter().step_by(23).collect();
        }
    }
    // (c) embedded and multi-statement forms
    for sp in &canon {
        let c = sp.concat();
        for s in [
            format!("SELECT '{}'", c.replace('\'', "''")),
            format!("{}; SELECT 1", c.trim_end_matches(|ch| ch == ';' || ch == ' ')),
            format!("SELECT 1; {}", c),
            format!("/* {} */ SELECT 1", c),
            format!("-- {}\nSELECT 1", c),
            format!("EXPLAIN {}", c),
            format!("{} x", c),
            format!("BEGIN; {}", c),
        ] {
            strings.insert(s);
        }
    }
    let all: Vec<String> = strings.into_iter().collect();
    let total = all.len();

    // ---- single-string classification vs try_execute_command ----
    let threads = 16;
    let chunk = (total + threads - 1) / threads;
    let counters = Arc::new(Mutex::new((0u64, 0u64, 0u64))); // handle, forward, dontcare
    let all = Arc::new(all);
    let mut hs = Vec::new();
    for t in 0..threads {
        let all = all.clone();
        let found = found.clone();
        let counters = counters.clone();
        hs.push(std::thread::spawn(move || {
            let (mut h, mut f, mut d) = (0u64, 0u64, 0u64);
            let lo = t * chunk;
            let hi = ((t + 1) * chunk).min(all.len());
            for s in all[lo.min(hi)..hi].iter() {
                let class = classify(s);
                let r = guarded(|| {
                    let mut qr = QueryRouter::new();
                    qr.update_pool_settings(&settings(3, None, true, true));
                    qr.try_execute_command(&q(s)).map(|(c, v)| (format!("{:?}", c), v))
                });
                let rp = guarded(|| {
                    let mut qr = QueryRouter::new();
                    qr.update_pool_settings(&settings(3, None, true, true));
                    qr.try_execute_command(&bm(&wire::parse("", s, &[]))).is_some()
                });
                match rp {
                    Ok(false) => {}
                    Ok(true) => {
                        let v = vio("C13.handled-in-parse", "C13.handled-in-parse", format!("Parse message with text {:?} was handled as a command", s));
                        let mut fl = found.lock().unwrap();
                        fl.push((v.clone(), json!({"engine":"enum","property":"C13","violation":v,"input":s}), 1));
                    }
                    Err(p) => {
                        if !s.contains('\0') {
                            let v = vio("C13.panic-parse", "C13.panic-parse", format!("Parse message with text {:?}: panic {}", s, p));
                            let mut fl = found.lock().unwrap();
                            if !fl.iter().any(|e| e.0.sig == v.sig) {
                                fl.push((v.clone(), json!({"engine":"enum","property":"C13","violation":v,"input":s}), 1));
                            }
                        }
                    }
                }
                match (&class, r) {
                    (Class::MustHandle(c), Ok(Some(_))) => {
                        h += 1;
                        let _ = c;
                    }
                    (Class::MustHandle(c), Ok(None)) => {
                        h += 1;
                        let v = vio("C13.not-handled", &format!("C13.not-handled:{:?}", std::mem::discriminant(c)).replace("Discriminant", ""), format!("documented command {:?} was not handled by the pooler", s));
                        let mut fl = found.lock().unwrap();
                        if let Some(e) = fl.iter_mut().find(|e| e.0.sig == v.sig) {
                            e.2 += 1;
                        } else {
                            fl.push((v.clone(), json!({"engine":"enum","property":"C13","violation":v,"input":s}), 1));
                        }
                    }
                    (Class::MustHandle(_), Err(p)) => {
                        h += 1;
                        let v = vio(
                            "C13.panic",
                            &format!("C13.panic:{}", value_class(s)),
                            format!("documented command {:?} is not answered: the handler panics ({})", s, p),
                        );
                        let mut fl = found.lock().unwrap();
                        if let Some(e) = fl.iter_mut().find(|e| e.0.sig == v.sig) {
                            e.2 += 1;
                        } else {
                            fl.push((v.clone(), json!({"engine":"enum","property":"C13","violation":v,"input":s}), 1));
                        }
                    }
                    (Class::MustForward, Ok(None)) => f += 1,
                    (Class::MustForward, Ok(Some((c, _)))) => {
                        f += 1;
                        let v = vio("C13.wrongly-handled", "C13.wrongly-handled", format!("query {:?} is not a documented command but was handled as {}", s, c));
                        let mut fl = found.lock().unwrap();
                        if let Some(e) = fl.iter_mut().find(|e| e.0.sig == v.sig) {
                            e.2 += 1;
                        } else {
                            fl.push((v.clone(), json!({"engine":"enum","property":"C13","violation":v,"input":s}), 1));
                        }
                    }
                    (Class::MustForward, Err(p)) => {
                        f += 1;
                        let v = vio("C13.panic-forward", "C13.panic-forward", format!("query {:?}: panic {}", s, p));
                        let mut fl = found.lock().unwrap();
                        if !fl.iter().any(|e| e.0.sig == v.sig) {
                            fl.push((v.clone(), json!({"engine":"enum","property":"C13","violation":v,"input":s}), 1));
                        }
                    }
                    (Class::DontCare, Ok(_)) => d += 1,
                    (Class::DontCare, Err(p)) => {
                        d += 1;
                        let v = vio("C13.panic-dontcare", &format!("C13.panic-dontcare:{}", value_class(s)), format!("query {:?}: panic {}", s, p));
                        let mut fl = found.lock().unwrap();
                        if !fl.iter().any(|e| e.0.sig == v.sig) {
                            fl.push((v.clone(), json!({"engine":"enum","property":"C13","violation":v,"input":s}), 1));
                        }
                    }
                }
            }
            let mut c = counters.lock().unwrap();
            c.0 += h;
            c.1 += f;
            c.2 += d;
        }));
    }
    for h in hs {
        h.join().unwrap();
    }
    let (nh, nf, nd) = *counters.lock().unwrap();

    // ---- command sequences vs the reference state machine ----
    let cmds: Vec<(&str, Cmd)> = vec![
        ("SET SHARD TO '2'", Cmd::SetShard("2".into())),
        ("SET SHARD TO 0", Cmd::SetShard("0".into())),
        ("SET SHARDING KEY TO '7'", Cmd::SetShardingKey("7".into())),
        ("set sharding key to 123456789012;", Cmd::SetShardingKey("123456789012".into())),
        ("SET SERVER ROLE TO 'primary'", Cmd::SetServerRole("primary".into())),
        ("SET SERVER ROLE TO 'replica'", Cmd::SetServerRole("replica".into())),
        ("SET SERVER ROLE TO 'any'", Cmd::SetServerRole("any".into())),
        ("SET SERVER ROLE TO 'auto'", Cmd::SetServerRole("auto".into())),
        ("SET SERVER ROLE TO 'default'", Cmd::SetServerRole("default".into())),
        ("SET PRIMARY READS TO on", Cmd::SetPrimaryReads("on".into())),
        ("SET PRIMARY READS TO 'off'", Cmd::SetPrimaryReads("off".into())),
        ("SET PRIMARY READS TO default", Cmd::SetPrimaryReads("default".into())),
        ("SHOW SHARD", Cmd::ShowShard),
        ("SHOW SERVER ROLE", Cmd::ShowServerRole),
        ("show primary reads;", Cmd::ShowPrimaryReads),
    ];
    let depth = if thorough { 4 } else { 3 };
    let mut states: BTreeSet<Model> = BTreeSet::new();
    let mut transitions: BTreeSet<(Model, usize, Model)> = BTreeSet::new();
    let mut seq_evals = 0u64;
    let configs: Vec<(Option<Role>, bool, bool)> = vec![(None, true, true), (None, false, false), (Some(Role::Primary), true, false), (Some(Role::Replica), false, true)];
    for (default_role, parser, pr) in &configs {
        let mut seqs: Vec<Vec<usize>> = vec![vec![]];
        for _ in 0..depth {
            let mut next = Vec::new();
            for s in &seqs {
                for c in 0..cmds.len() {
                    let mut t = s.clone();
                    t.push(c);
                    next.push(t);
                }
            }
            seqs = next;
        }
        for seq in &seqs {
            seq_evals += 1;
            let r = guarded(|| {
                let mut qr = QueryRouter::new();
                qr.update_pool_settings(&settings(5, *default_role, *parser, *pr));
                qr.set_default_role();
                let mut m = Model { shard: None, shard_known: true, role: default_role_name(*default_role, *parser), primary_reads: *pr };
                let mut trace = Vec::new();
                for c in seq {
                    let before = m.clone();
                    let (text, cmd) = &cmds[*c];
                    let got = qr.try_execute_command(&q(text));
                    let want = apply(&mut m, cmd, 5, *default_role, *parser, *pr);
                    trace.push((before, *c, m.clone()));
                    let got = match got {
                        Some(g) => g,
                        None => return (Some(format!("{:?} not handled in sequence", text)), trace),
                    };
                    if let Some(w) = want {
                        if w != "?" && got.1 != w {
                            return (Some(format!("after {:?}: {} reports {:?}, the preceding SETs established {:?}", seq.iter().map(|i| cmds[*i].0).collect::<Vec<_>>(), text, got.1, w)), trace);
                        }
                    }
                    if m.shard_known && qr.shard() != m.shard {
                        return (Some(format!("after {:?}: router shard {:?}, reference {:?}", seq.iter().map(|i| cmds[*i].0).collect::<Vec<_>>(), qr.shard(), m.shard)), trace);
                    }
                    if qr.primary_reads_enabled() != m.primary_reads {
                        return (Some(format!("after {:?}: primary reads {:?}, reference {:?}", seq.iter().map(|i| cmds[*i].0).collect::<Vec<_>>(), qr.primary_reads_enabled(), m.primary_reads)), trace);
                    }
                }
                (None, trace)
            });
            match r {
                Ok((None, trace)) => {
                    for (b, c, a) in trace {
                        states.insert(a.clone());
                        transitions.insert((b, c, a));
                    }
                }
                Ok((Some(msg), _)) => add(
                    &found,
                    vio("C13.sequence", &format!("C13.sequence:role={:?}:parser={}", default_role, parser), msg),
                    json!({"sequence": seq.iter().map(|i| cmds[*i].0).collect::<Vec<_>>(), "default_role": format!("{:?}", default_role), "parser": parser}),
                ),
                Err(p) => add(&found, vio("C13.sequence-panic", "C13.sequence-panic", format!("{:?}: {}", seq, p)), json!({"sequence": seq})),
            }
        }
    }

    part.states = states.len() as u64 + total as u64;
    part.transitions = transitions.len() as u64 + total as u64;
    part.evaluations = total as u64 * 2 + seq_evals;
    part.traces = part.evaluations;
    part.distinct = total as u64;
    part.samples = vec![
        json!({"string": "set sharding key to 12345678901234567890;", "class": format!("{:?}", classify("set sharding key to 12345678901234567890;"))}),
        json!({"string": "SET SHARD TO '1", "class": format!("{:?}", classify("SET SHARD TO '1"))}),
        json!({"string": "SELECT 1; SHOW SHARD", "class": format!("{:?}", classify("SELECT 1; SHOW SHARD"))}),
        json!({"sequence": ["SET SERVER ROLE TO 'replica'", "SET SERVER ROLE TO 'default'", "SHOW SERVER ROLE"]}),
    ];
    part.violations = std::mem::take(&mut *found.lock().unwrap());
    part.extra.insert("strings".into(), json!(total));
    part.extra.insert("must_handle".into(), json!(nh));
    part.extra.insert("must_forward".into(), json!(nf));
    part.extra.insert("dont_care".into(), json!(nd));
    part.extra.insert("sequence_evaluations".into(), json!(seq_evals));
    part.extra.insert("model_states".into(), json!(states.len()));
    part.extra.insert("model_transitions".into(), json!(transitions.len()));
    part.rule = format!(
        "all strings of <= {} tokens over a {}-token vocabulary (keywords in two cases, separators, quotes, numbers incl. a 20-digit one and 70-digit zero-padded ones, 80-space padding, role/on-off words, foreign SQL, comments), every canonical spelling with all single{} token insertions/deletions/replacements, embedded and multi-statement forms: {} distinct strings, each classified by a hand-written reference recogniser (must-handle / must-forward / don't-care) and compared with try_execute_command as Query and as Parse; all command sequences of length {} over 15 commands under 4 pool configurations vs a reference state machine",
        maxlen,
        VOCAB.len(),
        if thorough { " and (thinned) double" } else { "" },
        total,
        depth
    );
    part.assumptions = vec![
        "reference recogniser: keywords separated by single spaces, optional balanced single quotes around the value (mandatory for role words), optional trailing spaces and one semicolon; other whitespace, unbalanced quotes, unquoted role words are don't-cares".into(),
        "SET SHARD range checking is the client layer's job (sim part)".into(),
    ];
    part
}
