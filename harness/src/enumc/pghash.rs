//! Independent reference for PostgreSQL's PARTITION BY HASH on a single bigint
//! column, transcribed from PostgreSQL's sources:
//!   src/common/hashfn.c  : mix(), final(), hash_bytes_uint32_extended()
//!   src/backend/access/hash/hashfunc.c : hashint8extended()
//!   src/include/common/hashfn.h : hash_combine64()
//!   src/backend/partitioning/partbounds.c : compute_partition_hash_value()
//!   src/include/catalog/partition.h : HASH_PARTITION_SEED
//! and for the documented SHA1 rule (README: sha1 of the decimal string, last 8
//! hex digits, modulo the number of shards) with a SHA-1 written from RFC 3174.

const HASH_PARTITION_SEED: u64 = 0x7A5B22367996DCFD; // partition.h; validated by self_check() against recorded PostgreSQL output

#[inline]
fn rot(x: u32, k: u32) -> u32 {
    x.rotate_left(k)
}

/// hash_bytes_uint32_extended(k, seed)
pub fn hash_uint32_extended(k: u32, seed: u64) -> u64 {
    let init: u32 = 0x9e3779b9u32.wrapping_add(4).wrapping_add(3923095);
    let (mut a, mut b, mut c) = (init, init, init);
    if seed != 0 {
        a = a.wrapping_add((seed >> 32) as u32);
        b = b.wrapping_add(seed as u32);
        // mix(a, b, c)
        a = a.wrapping_sub(c); a ^= rot(c, 4); c = c.wrapping_add(b);
        b = b.wrapping_sub(a); b ^= rot(a, 6); a = a.wrapping_add(c);
        c = c.wrapping_sub(b); c ^= rot(b, 8); b = b.wrapping_add(a);
        a = a.wrapping_sub(c); a ^= rot(c, 16); c = c.wrapping_add(b);
        b = b.wrapping_sub(a); b ^= rot(a, 19); a = a.wrapping_add(c);
        c = c.wrapping_sub(b); c ^= rot(b, 4); b = b.wrapping_add(a);
    }
    a = a.wrapping_add(k);
    // final(a, b, c)
    c ^= b; c = c.wrapping_sub(rot(b, 14));
    a ^= c; a = a.wrapping_sub(rot(c, 11));
    b ^= a; b = b.wrapping_sub(rot(a, 25));
    c ^= b; c = c.wrapping_sub(rot(b, 16));
    a ^= c; a = a.wrapping_sub(rot(c, 4));
    b ^= a; b = b.wrapping_sub(rot(a, 14));
    c ^= b; c = c.wrapping_sub(rot(b, 24));
    ((b as u64) << 32) | (c as u64)
}

/// hashint8extended(val, seed)
pub fn hashint8extended(val: i64, seed: u64) -> u64 {
    let mut lohalf = val as u32;
    let hihalf = (val >> 32) as u32;
    lohalf ^= if val >= 0 { hihalf } else { !hihalf };
    hash_uint32_extended(lohalf, seed)
}

/// The 32-bit value hashint8 actually consumes.
pub fn fold(val: i64) -> u32 {
    let lohalf = val as u32;
    let hihalf = (val >> 32) as u32;
    lohalf ^ if val >= 0 { hihalf } else { !hihalf }
}

fn hash_combine64(mut a: u64, b: u64) -> u64 {
    a ^= b.wrapping_add(0x49a0f4dd15e5a8e3).wrapping_add(a << 54).wrapping_add(a >> 7);
    a
}

/// compute_partition_hash_value() for one bigint key column.
pub fn partition_hash(val: i64) -> u64 {
    hash_combine64(0, hashint8extended(val, HASH_PARTITION_SEED))
}

pub fn partition_hash_folded(k32: u32) -> u64 {
    hash_combine64(0, hash_uint32_extended(k32, HASH_PARTITION_SEED))
}

/// Partition (remainder) PostgreSQL assigns with MODULUS n.
pub fn pg_partition(val: i64, n: u64) -> u64 {
    partition_hash(val) % n
}

// ---- SHA-1 (RFC 3174) ----
pub fn sha1(data: &[u8]) -> [u8; 20] {
    let mut h: [u32; 5] = [0x67452301, 0xEFCDAB89, 0x98BADCFE, 0x10325476, 0xC3D2E1F0];
    let ml = (data.len() as u64) * 8;
    let mut msg = data.to_vec();
    msg.push(0x80);
    while msg.len() % 64 != 56 {
        msg.push(0);
    }
    msg.extend_from_slice(&ml.to_be_bytes());
    for chunk in msg.chunks(64) {
        let mut w = [0u32; 80];
        for i in 0..16 {
            w[i] = u32::from_be_bytes(chunk[i * 4..i * 4 + 4].try_into().unwrap());
        }
        for i in 16..80 {
            w[i] = (w[i - 3] ^ w[i - 8] ^ w[i - 14] ^ w[i - 16]).rotate_left(1);
        }
        let (mut a, mut b, mut c, mut d, mut e) = (h[0], h[1], h[2], h[3], h[4]);
        for (i, wi) in w.iter().enumerate() {
            let (f, k) = match i {
                0..=19 => ((b & c) | ((!b) & d), 0x5A827999u32),
                20..=39 => (b ^ c ^ d, 0x6ED9EBA1),
                40..=59 => ((b & c) | (b & d) | (c & d), 0x8F1BBCDC),
                _ => (b ^ c ^ d, 0xCA62C1D6),
            };
            let temp = a.rotate_left(5).wrapping_add(f).wrapping_add(e).wrapping_add(k).wrapping_add(*wi);
            e = d;
            d = c;
            c = b.rotate_left(30);
            b = a;
            a = temp;
        }
        h[0] = h[0].wrapping_add(a);
        h[1] = h[1].wrapping_add(b);
        h[2] = h[2].wrapping_add(c);
        h[3] = h[3].wrapping_add(d);
        h[4] = h[4].wrapping_add(e);
    }
    let mut out = [0u8; 20];
    for i in 0..5 {
        out[i * 4..i * 4 + 4].copy_from_slice(&h[i].to_be_bytes());
    }
    out
}

/// Documented SHA1 sharding rule.
pub fn sha1_shard(val: i64, n: u64) -> u64 {
    let d = sha1(val.to_string().as_bytes());
    // last 8 hex digits = last 4 bytes
    let last = u32::from_be_bytes(d[16..20].try_into().unwrap()) as u64;
    last % n
}

/// Self-check against the only real PostgreSQL vectors available offline
/// (tests/sharding/partition_hash_test_setup.sql: MODULUS 5, ids 1..500, the
/// first ten ids of each partition as recorded by the repository), and SHA-1
/// test vectors from RFC 3174.
pub fn self_check() -> Result<(), String> {
    let lists: [&[i64]; 5] = [
        &[1, 4, 5, 14, 19, 39, 40, 46, 47, 53],
        &[2, 3, 11, 17, 21, 23, 30, 49, 51, 54],
        &[6, 7, 15, 16, 18, 20, 25, 28, 34, 35],
        &[8, 12, 13, 22, 29, 31, 33, 36, 41, 43],
        &[9, 10, 24, 26, 27, 32, 37, 38, 42, 45],
    ];
    for (p, l) in lists.iter().enumerate() {
        let max = *l.last().unwrap();
        // the list is "ORDER BY id LIMIT 10": ids <= max are in partition p iff listed
        for id in 1..=max {
            let got = pg_partition(id, 5) as usize;
            let listed = l.contains(&id);
            if listed != (got == p) {
                return Err(format!("reference hash disagrees with recorded PostgreSQL output: id {} partition {} listed={} ref={}", id, p, listed, got));
            }
        }
    }
    let hex = |d: [u8; 20]| d.iter().map(|b| format!("{:02x}", b)).collect::<String>();
    if hex(sha1(b"abc")) != "a9993e364706816aba3e25717850c26c9cd0d89d" {
        return Err("sha1 self-check failed (abc)".into());
    }
    if hex(sha1(b"abcdbcdecdefdefgefghfghighijhijkijkljklmklmnlmnomnopnopq")) != "84983e441c3bd26ebaae4aa1f95129e5e54670f1" {
        return Err("sha1 self-check failed (long)".into());
    }
    Ok(())
}
