//! C05 (enum part): writes and transactions go to the primary; plain reads are
//! not pinned to it; explicit role choices are honoured; recomputed per message.

use super::sqlgen::{render, Kind, SHAPES};
use super::{bm, guarded, q, silence_panics};
use crate::explore::Violation;
use crate::report::Part;
use crate::wire;
use pgcat::config::Role;
use pgcat::pool::PoolSettings;
use pgcat::query_router::QueryRouter;
use serde_json::json;
use std::collections::BTreeSet;

fn settings(default_role: Option<Role>, primary_reads: bool) -> PoolSettings {
    let mut ps = PoolSettings::default();
    ps.shards = 1;
    ps.default_role = default_role;
    ps.query_parser_enabled = true;
    ps.query_parser_read_write_splitting = true;
    ps.primary_reads_enabled = primary_reads;
    ps
}

#[derive(Clone, Copy, Debug, PartialEq, Eq, PartialOrd, Ord)]
enum Ov {
    Auto,
    Primary,
    Replica,
    Any,
}

#[derive(Clone, Copy, Debug, PartialEq, Eq, PartialOrd, Ord)]
enum Want {
    Primary,
    Replica,
    NotPrimary,
    Any,
}

fn role_name(r: Option<Role>) -> &'static str {
    match r {
        Some(Role::Primary) => "primary",
        Some(Role::Replica) => "replica",
        Some(Role::Mirror) => "mirror",
        None => "any",
    }
}

fn satisfies(r: Option<Role>, w: Want) -> bool {
    match w {
        Want::Primary => matches!(r, Some(Role::Primary)),
        Want::Replica => matches!(r, Some(Role::Replica)),
        Want::NotPrimary => !matches!(r, Some(Role::Primary)),
        Want::Any => r.is_none(),
    }
}

fn want_for(kind: Kind, ov: Ov, primary_reads: bool) -> Option<Want> {
    match ov {
        Ov::Primary => Some(Want::Primary),
        Ov::Replica => Some(Want::Replica),
        Ov::Any => Some(Want::Any),
        Ov::Auto => match kind {
            Kind::Write => Some(Want::Primary),
            Kind::Read => Some(if primary_reads { Want::NotPrimary } else { Want::Replica }),
            Kind::Either => None,
        },
    }
}

/// What the client task does with one non-command message before checkout.
fn route(qr: &mut QueryRouter, msg: &bytes::BytesMut) -> Result<bool, ()> {
    if qr.try_execute_command(msg).is_some() {
        return Ok(true);
    }
    if qr.query_parser_enabled() {
        match qr.parse(msg) {
            Ok(ast) => {
                let _ = qr.infer(&ast);
            }
            Err(_) => return Err(()),
        }
    }
    Ok(false)
}

fn vio(oracle: &str, sig: String, detail: String) -> Violation {
    Violation { oracle: oracle.to_string(), sig, detail }
}

pub fn run(tier: &str) -> Part {
    silence_panics();
    QueryRouter::setup();
    let thorough = tier == "thorough";
    let mut part = Part { engine: "enum".into(), exhaustive: true, ..Default::default() };
    let mut found: Vec<(Violation, serde_json::Value, usize)> = Vec::new();
    let mut add = |v: Violation, input: serde_json::Value| {
        if let Some(f) = found.iter_mut().find(|f| f.0.sig == v.sig) {
            f.2 += 1;
        } else {
            let replay = json!({"engine": "enum", "property": "C05", "violation": v, "input": input});
            found.push((v, replay, 1));
        }
    };
    let mut evals = 0u64;
    let mut rejected = 0u64;
    let mut messages: BTreeSet<String> = BTreeSet::new();
    let configs: Vec<(Option<Role>, bool)> = vec![(None, true), (None, false), (Some(Role::Primary), true), (Some(Role::Primary), false), (Some(Role::Replica), true), (Some(Role::Replica), false)];

    // (1) single- and multi-statement messages, as Query and as Parse
    let stmts: Vec<(String, Kind, &str)> = SHAPES.iter().map(|s| (render(s, "t1", "t1"), s.kind, s.name)).collect();
    let mut msgs: Vec<(String, Kind, String)> = Vec::new();
    for (sql, k, n) in &stmts {
        msgs.push((sql.clone(), *k, n.to_string()));
        msgs.push((format!("{};", sql), *k, n.to_string()));
        msgs.push((format!("/* c */ {}", sql.to_lowercase()), *k, n.to_string()));
        // statements of any size: padded past typical buffer / shortcut sizes (300 B, 9 KB)
        msgs.push((format!("{} /* {} */", sql, "x".repeat(300)), *k, format!("{}:pad300", n)));
        msgs.push((format!("{}{}", " ".repeat(9000), sql), *k, format!("{}:pad9000", n)));
    }
    let combine = |a: Kind, b: Kind| -> Kind {
        match (a, b) {
            (Kind::Write, _) | (_, Kind::Write) => Kind::Write,
            (Kind::Either, _) | (_, Kind::Either) => Kind::Either,
            _ => Kind::Read,
        }
    };
    let step2 = if thorough { 1 } else { 3 };
    for (i, (a, ka, na)) in stmts.iter().enumerate() {
        for (j, (b, kb, nb)) in stmts.iter().enumerate() {
            if (i * 7 + j) % step2 != 0 {
                continue;
            }
            msgs.push((format!("{}; {}", a, b), combine(*ka, *kb), format!("{}+{}", na, nb)));
        }
    }
    if thorough {
        let reps: Vec<usize> = (0..stmts.len()).step_by(4).collect();
        for i in &reps {
            for j in &reps {
                for k in &reps {
                    let (a, b, c) = (&stmts[*i], &stmts[*j], &stmts[*k]);
                    msgs.push((format!("{}; {}; {}", a.0, b.0, c.0), combine(combine(a.1, b.1), c.1), format!("{}+{}+{}", a.2, b.2, c.2)));
                }
            }
        }
    }
    // with and without an automatic sharding key (3 shards): shard inference runs inside the same function
    // as the role decision and has error paths of its own (key updated, keys of several shards)
    for ask in [None, Some("t1.a"), Some("*.a")] {
      for (default_role, pr) in &configs {
        for (sql, kind, name) in &msgs {
            if ask.is_some() && (name.contains(":pad") || (name.contains('+') && !thorough)) {
                continue;
            }
            for proto in ["Q", "P"] {
                evals += 1;
                messages.insert(sql.clone());
                let m = if proto == "Q" { q(sql) } else { bm(&wire::parse("", sql, &[])) };
                let r = guarded(|| {
                    let mut qr = QueryRouter::new();
                    let mut ps = settings(*default_role, *pr);
                    if let Some(k) = ask {
                        ps.shards = 3;
                        ps.automatic_sharding_key = Some(k.to_string());
                    }
                    qr.update_pool_settings(&ps);
                    qr.set_default_role();
                    match route(&mut qr, &m) {
                        Ok(_) => Some(qr.role()),
                        Err(()) => None,
                    }
                });
                match r {
                    Err(p) => add(
                        vio("C05.panic", format!("C05.panic:{}", name.split('+').next().unwrap()), format!("routing {:?}: panic {}", sql, p)),
                        json!({"sql": sql, "protocol": proto}),
                    ),
                    Ok(None) => rejected += 1,
                    Ok(Some(role)) => {
                        if let Some(w) = want_for(*kind, Ov::Auto, *pr) {
                            if !satisfies(role, w) {
                                let what = if *kind == Kind::Write { "not-on-primary" } else { "read-misrouted" };
                                add(
                                    vio(
                                        &format!("C05.{}", what),
                                        format!("C05.{}:{}{}", what, name, if ask.is_some() { ":automatic-sharding-key" } else { "" }),
                                        format!(
                                            "{} message {:?} (default_role {}, primary_reads {}): routed to {:?}, required {:?}",
                                            proto,
                                            sql,
                                            role_name(*default_role),
                                            pr,
                                            role_name(role),
                                            w
                                        ),
                                    ),
                                    json!({"sql": sql, "protocol": proto, "default_role": role_name(*default_role), "primary_reads": pr, "automatic_sharding_key": ask}),
                                );
                            }
                        }
                    }
                }
            }
        }
      }
    }

    // (2) histories: per-session overrides and recomputation for each new message
    #[derive(Clone)]
    enum Ev {
        Msg(&'static str, Kind),
        Role(&'static str),
        Reads(&'static str),
    }
    let events: Vec<Ev> = vec![
        Ev::Msg("SELECT * FROM t1 WHERE a = 1", Kind::Read),
        Ev::Msg("INSERT INTO t1 VALUES (1)", Kind::Write),
        Ev::Msg("BEGIN", Kind::Write),
        Ev::Msg("SELECT * FROM t1 FOR UPDATE", Kind::Write),
        Ev::Msg("SELECT 1; UPDATE t1 SET a = 2", Kind::Write),
        Ev::Role("primary"),
        Ev::Role("replica"),
        Ev::Role("any"),
        Ev::Role("auto"),
        Ev::Role("default"),
        Ev::Reads("on"),
        Ev::Reads("off"),
        Ev::Reads("default"),
    ];
    let depth = if thorough { 4 } else { 3 };
    let mut states: BTreeSet<(Ov, bool)> = BTreeSet::new();
    let mut transitions: BTreeSet<((Ov, bool), usize, (Ov, bool))> = BTreeSet::new();
    for (default_role, pr) in &configs {
        let mut seqs: Vec<Vec<usize>> = vec![vec![]];
        for _ in 0..depth {
            let mut next = Vec::new();
            for s in &seqs {
                for e in 0..events.len() {
                    let mut t = s.clone();
                    t.push(e);
                    next.push(t);
                }
            }
            seqs = next;
        }
        for seq in &seqs {
            evals += 1;
            let r = guarded(|| {
                let mut qr = QueryRouter::new();
                qr.update_pool_settings(&settings(*default_role, *pr));
                qr.set_default_role();
                let mut ov = Ov::Auto;
                let mut reads = *pr;
                let mut trace = Vec::new();
                for e in seq {
                    let before = (ov, reads);
                    match &events[*e] {
                        Ev::Role(r) => {
                            let _ = route(&mut qr, &q(&format!("SET SERVER ROLE TO '{}'", r)));
                            ov = match *r {
                                "primary" => Ov::Primary,
                                "replica" => Ov::Replica,
                                "any" => Ov::Any,
                                _ => Ov::Auto,
                            };
                        }
                        Ev::Reads(v) => {
                            let _ = route(&mut qr, &q(&format!("SET PRIMARY READS TO {}", v)));
                            reads = match *v {
                                "on" => true,
                                "off" => false,
                                _ => *pr,
                            };
                        }
                        Ev::Msg(sql, kind) => {
                            if route(&mut qr, &q(sql)).is_err() {
                                return (None, trace);
                            }
                            if let Some(w) = want_for(*kind, ov, reads) {
                                if !satisfies(qr.role(), w) {
                                    let hist: Vec<String> = seq
                                        .iter()
                                        .map(|i| match &events[*i] {
                                            Ev::Msg(s, _) => s.to_string(),
                                            Ev::Role(r) => format!("SET SERVER ROLE TO '{}'", r),
                                            Ev::Reads(v) => format!("SET PRIMARY READS TO {}", v),
                                        })
                                        .collect();
                                    return (
                                        Some((
                                            format!("{:?}:{:?}:{:?}", kind, ov, w),
                                            format!(
                                                "history {:?} (default_role {}, primary_reads {}): message {:?} routed to {:?}, required {:?}",
                                                hist,
                                                role_name(*default_role),
                                                pr,
                                                sql,
                                                role_name(qr.role()),
                                                w
                                            ),
                                            hist,
                                        )),
                                        trace,
                                    );
                                }
                            }
                        }
                    }
                    trace.push((before, *e, (ov, reads)));
                }
                (None, trace)
            });
            match r {
                Ok((None, trace)) => {
                    for (b, e, a) in trace {
                        states.insert(a);
                        transitions.insert((b, e, a));
                    }
                }
                Ok((Some((sig, msg, hist)), _)) => add(
                    vio("C05.history", format!("C05.history:{}:default={}", sig, role_name(*default_role)), msg),
                    json!({"history": hist, "default_role": role_name(*default_role), "primary_reads": pr}),
                ),
                Err(p) => add(vio("C05.history-panic", "C05.history-panic".into(), format!("{:?}: {}", seq, p)), json!({"seq": seq})),
            }
        }
    }

    part.states = states.len() as u64 + messages.len() as u64;
    part.transitions = transitions.len() as u64 + evals;
    part.evaluations = evals;
    part.traces = evals;
    part.distinct = messages.len() as u64;
    part.samples = vec![
        json!({"message": "WITH c AS (DELETE FROM t1 RETURNING *) SELECT * FROM c", "label": "not a plain read (data-modifying CTE)", "required": "primary"}),
        json!({"message": "SELECT * FROM t1; SELECT 1", "label": "plain reads", "required": "replica when primary reads are off, never primary"}),
        json!({"history": ["INSERT INTO t1 VALUES (1)", "SELECT * FROM t1 WHERE a = 1"], "required": "second message not pinned to the primary"}),
    ];
    part.violations = found;
    part.extra.insert("parser_rejected_dont_care".into(), json!(rejected));
    part.extra.insert("distinct_messages".into(), json!(messages.len()));
    part.extra.insert("override_states".into(), json!(states.len()));
    part.extra.insert("override_transitions".into(), json!(transitions.len()));
    part.rule = format!(
        "{} labelled statement shapes (label from the generating production) as single statements in 5 spellings (incl. padded to 300 B and 9 KB), all{} two-statement{} messages, as Query and as Parse, under 6 (default_role, primary_reads) configurations; all histories of length {} over 13 events (5 message classes, SET SERVER ROLE x5, SET PRIMARY READS x3) against a reference override state machine; parser-rejected messages and EXPLAIN of a read are don't-cares",
        SHAPES.len(),
        if thorough { "" } else { " (every 3rd)" },
        if thorough { " and a thinned set of three-statement" } else { "" },
        depth
    );
    part.assumptions = vec!["labels come from the grammar productions; activity-based routing not enabled".into()];
    part
}
