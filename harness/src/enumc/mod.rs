//! `enum` engine: exhaustive enumeration of sequential library code against
//! boring reference models written from the property text and PostgreSQL's
//! documentation, never from pgcat's code.

pub mod c05;
pub mod c06;
pub mod c13;
pub mod c19;
pub mod pghash;
pub mod sqlgen;

use std::panic::{catch_unwind, AssertUnwindSafe};

/// Run `f`, converting a panic into Err(message). Panic output is silenced.
pub fn guarded<T>(f: impl FnOnce() -> T) -> Result<T, String> {
    match catch_unwind(AssertUnwindSafe(f)) {
        Ok(v) => Ok(v),
        Err(p) => Err(if let Some(s) = p.downcast_ref::<String>() {
            s.clone()
        } else if let Some(s) = p.downcast_ref::<&str>() {
            s.to_string()
        } else {
            "panic".to_string()
        }),
    }
}

pub fn silence_panics() {
    std::panic::set_hook(Box::new(|_| {}));
}

pub fn q(sql: &str) -> bytes::BytesMut {
    bytes::BytesMut::from(&crate::wire::query(sql)[..])
}

pub fn bm(b: &[u8]) -> bytes::BytesMut {
    bytes::BytesMut::from(b)
}
