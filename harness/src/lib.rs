pub mod cfg;
pub mod enumc;
pub mod explore;
pub mod mockpg;
pub mod props;
pub mod report;
pub mod wire;
pub mod world;
