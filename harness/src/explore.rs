//! Stateless, deviation-bounded exploration by re-execution, one forked child
//! process per execution (pgcat keeps process-global state), up to `workers`
//! children in flight.

use crate::world::{run_scenario, Outcome, Point, Scenario};
use crate::mockpg::Rec;
use serde::{Deserialize, Serialize};
use std::collections::{BTreeMap, HashSet};
use std::hash::{Hash, Hasher};
use std::io::Read;
use std::os::unix::io::FromRawFd;
use std::time::Instant;

#[derive(Clone, Debug, Serialize, Deserialize, PartialEq, Eq)]
pub struct Violation {
    pub oracle: String,
    /// stable signature (what known_findings.json matches on)
    pub sig: String,
    pub detail: String,
}

#[derive(Clone, Debug, Serialize, Deserialize)]
pub struct ExecResult {
    pub points: Vec<Point>,
    pub violations: Vec<Violation>,
    pub outcome_hash: u64,
    pub state_hashes: Vec<u64>,
    pub blocked: bool,
    pub events: usize,
    pub diverged: Option<String>,
    pub init_error: Option<String>,
    pub panics: Vec<String>,
    pub trace: Option<String>,
    pub crashed: Option<String>,
    pub final_ms: u64,
}

pub type Oracle = dyn Fn(&Scenario, &Outcome) -> Vec<Violation>;

pub fn outcome_hash(o: &Outcome, nactors: usize) -> u64 {
    let mut h = std::collections::hash_map::DefaultHasher::new();
    for e in &o.log {
        match &e.rec {
            Rec::CRecv { c, msg } => {
                if *c >= nactors {
                    continue;
                }
                if msg.code == b'K' || (msg.code == b'R' && msg.body.len() == 8) {
                    (c, msg.code).hash(&mut h);
                } else {
                    (c, msg.code, &msg.body).hash(&mut h);
                }
            }
            Rec::CEof { c } => (c, 0xEEu8).hash(&mut h),
            Rec::BRecv { conn, msg, st } => (conn, msg.code, &msg.body, st.status).hash(&mut h),
            Rec::BAccept { conn, server } => (conn, server).hash(&mut h),
            Rec::BClose { conn, by } => (conn, by).hash(&mut h),
            Rec::BCancel { conn, pid, key, .. } => (conn, pid, key).hash(&mut h),
            Rec::Panic { .. } => 0xFAu8.hash(&mut h),
            _ => {}
        }
    }
    o.blocked.hash(&mut h);
    h.finish()
}

fn work_dir() -> String {
    let d = format!("/dev/shm/vharness-{}", std::process::id());
    let _ = std::fs::create_dir_all(&d);
    d
}

/// Run one execution in-process (the caller must be a fresh process).
struct StderrLogger;
impl log::Log for StderrLogger {
    fn enabled(&self, _: &log::Metadata) -> bool {
        true
    }
    fn log(&self, r: &log::Record) {
        if r.target().starts_with("pgcat") || r.target().starts_with("bb8") {
            eprintln!("[{} {}] {}", r.level(), r.target(), r.args());
        }
    }
    fn flush(&self) {}
}

pub fn execute(sc: &Scenario, oracle: &Oracle, prefix: &[u32], expect_n: &[u32], config_path: &str) -> ExecResult {
    if std::env::var("VERIF_LOG").is_ok() {
        let _ = log::set_boxed_logger(Box::new(StderrLogger));
        log::set_max_level(log::LevelFilter::Debug);
    }
    let hook_panics = std::sync::Arc::new(parking_lot::Mutex::new(Vec::<String>::new()));
    {
        let hp = hook_panics.clone();
        std::panic::set_hook(Box::new(move |info| {
            let loc = info.location().map(|l| format!("{}:{}", l.file(), l.line())).unwrap_or_default();
            let msg = if let Some(s) = info.payload().downcast_ref::<String>() {
                s.clone()
            } else if let Some(s) = info.payload().downcast_ref::<&str>() {
                s.to_string()
            } else {
                "panic".into()
            };
            hp.lock().push(format!("{} @ {}", msg, loc));
        }));
    }
    let res = std::panic::catch_unwind(std::panic::AssertUnwindSafe(|| {
        let out = run_scenario(sc, prefix, expect_n, config_path);
        let violations = if out.diverged.is_some() { vec![] } else { oracle(sc, &out) };
        (out, violations)
    }));
    let panics = hook_panics.lock().clone();
    match res {
        Ok((out, violations)) => ExecResult {
            outcome_hash: outcome_hash(&out, sc.actors.len()),
            trace: if sc.opts.trace { Some(crate::world::render(&out.log)) } else { None },
            points: out.points,
            violations,
            state_hashes: out.state_hashes,
            blocked: out.blocked,
            events: out.events,
            diverged: out.diverged,
            init_error: out.init_error,
            panics,
            crashed: None,
            final_ms: out.final_ms,
        },
        Err(_) => ExecResult {
            points: vec![],
            violations: vec![],
            outcome_hash: 0,
            state_hashes: vec![],
            blocked: false,
            events: 0,
            diverged: None,
            init_error: None,
            panics: panics.clone(),
            trace: None,
            crashed: Some(format!("harness driver panicked: {:?}", panics)),
            final_ms: 0,
        },
    }
}

struct Child {
    pid: i32,
    file: std::fs::File,
    buf: Vec<u8>,
    job: Job,
    cfg: String,
}

#[derive(Clone, Debug)]
pub struct Job {
    pub sidx: usize,
    pub prefix: Vec<u32>,
    pub expect_n: Vec<u32>,
    pub devs: u32,
    pub recheck_of: Option<(u64, Vec<Point>)>,
}

fn spawn_child(scenarios: &[Scenario], oracle: &Oracle, job: Job, serial: u64) -> Child {
    let mut fds = [0i32; 2];
    unsafe {
        if libc::pipe(fds.as_mut_ptr()) != 0 {
            panic!("pipe failed");
        }
    }
    let cfg = format!("{}/c{}.toml", work_dir(), serial);
    let pid = unsafe { libc::fork() };
    if pid < 0 {
        panic!("fork failed");
    }
    if pid == 0 {
        unsafe {
            libc::close(fds[0]);
            libc::alarm(120);
        }
        let r = execute(&scenarios[job.sidx], oracle, &job.prefix, &job.expect_n, &cfg);
        let data = serde_json::to_vec(&r).unwrap_or_else(|_| b"{}".to_vec());
        let mut off = 0;
        while off < data.len() {
            let n = unsafe { libc::write(fds[1], data[off..].as_ptr() as *const libc::c_void, data.len() - off) };
            if n <= 0 {
                break;
            }
            off += n as usize;
        }
        let _ = std::fs::remove_file(&cfg);
        unsafe {
            libc::close(fds[1]);
            libc::_exit(0);
        }
    }
    unsafe {
        libc::close(fds[1]);
        let flags = libc::fcntl(fds[0], libc::F_GETFL);
        libc::fcntl(fds[0], libc::F_SETFL, flags | libc::O_NONBLOCK);
    }
    Child { pid, file: unsafe { std::fs::File::from_raw_fd(fds[0]) }, buf: Vec::new(), job, cfg }
}

/// A worker process: forked once while the parent is still small, it forks one grandchild per
/// execution (cheap: its own address space stays small) and relays the result. This takes fork()
/// of the ever-growing parent (state sets, job queues) off the critical path.
struct Worker {
    pid: i32,
    to: std::fs::File,
    from: std::fs::File,
    buf: Vec<u8>,
    job: Option<Job>,
}

fn write_all_fd(fd: i32, data: &[u8]) -> bool {
    let mut off = 0;
    while off < data.len() {
        let n = unsafe { libc::write(fd, data[off..].as_ptr() as *const libc::c_void, data.len() - off) };
        if n <= 0 {
            return false;
        }
        off += n as usize;
    }
    true
}

fn read_exact_fd(fd: i32, buf: &mut [u8]) -> bool {
    let mut off = 0;
    while off < buf.len() {
        let n = unsafe { libc::read(fd, buf[off..].as_mut_ptr() as *mut libc::c_void, buf.len() - off) };
        if n <= 0 {
            return false;
        }
        off += n as usize;
    }
    true
}

fn worker_main(scenarios: &[Scenario], oracle: &Oracle, job_fd: i32, res_fd: i32, widx: usize) -> ! {
    let mut serial = 0u64;
    loop {
        let mut head = [0u8; 4];
        if !read_exact_fd(job_fd, &mut head) {
            unsafe { libc::_exit(0) };
        }
        let len = u32::from_le_bytes(head) as usize;
        let mut body = vec![0u8; len];
        if !read_exact_fd(job_fd, &mut body) {
            unsafe { libc::_exit(0) };
        }
        let (sidx, prefix, expect_n): (usize, Vec<u32>, Vec<u32>) = match serde_json::from_slice(&body) {
            Ok(j) => j,
            Err(_) => unsafe { libc::_exit(3) },
        };
        serial += 1;
        let mut fds = [0i32; 2];
        unsafe {
            if libc::pipe(fds.as_mut_ptr()) != 0 {
                libc::_exit(4);
            }
        }
        let cfg = format!("{}/w{}_{}.toml", work_dir(), widx, serial);
        let pid = unsafe { libc::fork() };
        if pid < 0 {
            unsafe { libc::_exit(5) };
        }
        if pid == 0 {
            unsafe {
                libc::close(fds[0]);
                libc::close(job_fd);
                libc::close(res_fd);
                libc::alarm(120);
            }
            let r = execute(&scenarios[sidx], oracle, &prefix, &expect_n, &cfg);
            let data = serde_json::to_vec(&r).unwrap_or_else(|_| b"{}".to_vec());
            write_all_fd(fds[1], &data);
            let _ = std::fs::remove_file(&cfg);
            unsafe {
                libc::close(fds[1]);
                libc::_exit(0);
            }
        }
        unsafe { libc::close(fds[1]) };
        let mut data: Vec<u8> = Vec::new();
        let mut tmp = [0u8; 65536];
        loop {
            let n = unsafe { libc::read(fds[0], tmp.as_mut_ptr() as *mut libc::c_void, tmp.len()) };
            if n <= 0 {
                break;
            }
            data.extend_from_slice(&tmp[..n as usize]);
        }
        let mut status = 0i32;
        unsafe {
            libc::close(fds[0]);
            libc::waitpid(pid, &mut status, 0);
        }
        let _ = std::fs::remove_file(&cfg);
        // frame: u32 length, i32 wait status, payload
        let mut frame = Vec::with_capacity(data.len() + 8);
        frame.extend_from_slice(&(data.len() as u32).to_le_bytes());
        frame.extend_from_slice(&status.to_le_bytes());
        frame.extend_from_slice(&data);
        if !write_all_fd(res_fd, &frame) {
            unsafe { libc::_exit(0) };
        }
    }
}

fn spawn_worker(scenarios: &[Scenario], oracle: &Oracle, widx: usize, others: &[Worker]) -> Worker {
    let mut jp = [0i32; 2];
    let mut rp = [0i32; 2];
    unsafe {
        if libc::pipe(jp.as_mut_ptr()) != 0 || libc::pipe(rp.as_mut_ptr()) != 0 {
            panic!("pipe failed");
        }
    }
    let pid = unsafe { libc::fork() };
    if pid < 0 {
        panic!("fork failed");
    }
    if pid == 0 {
        unsafe {
            libc::close(jp[1]);
            libc::close(rp[0]);
            // the pipe ends of the workers started before this one
            for w in others {
                libc::close(std::os::unix::io::AsRawFd::as_raw_fd(&w.to));
                libc::close(std::os::unix::io::AsRawFd::as_raw_fd(&w.from));
            }
        }
        worker_main(scenarios, oracle, jp[0], rp[1], widx);
    }
    unsafe {
        libc::close(jp[0]);
        libc::close(rp[1]);
        let flags = libc::fcntl(rp[0], libc::F_GETFL);
        libc::fcntl(rp[0], libc::F_SETFL, flags | libc::O_NONBLOCK);
    }
    Worker { pid, to: unsafe { std::fs::File::from_raw_fd(jp[1]) }, from: unsafe { std::fs::File::from_raw_fd(rp[0]) }, buf: Vec::new(), job: None }
}

#[derive(Clone, Debug, Serialize, Deserialize)]
pub struct Found {
    pub violation: Violation,
    pub scenario: String,
    pub sidx: usize,
    pub choices: Vec<u32>,
    pub labels: Vec<String>,
    pub devs: u32,
    pub count: usize,
}

#[derive(Default)]
pub struct Report {
    pub executions: u64,
    pub by_devs: BTreeMap<u32, u64>,
    pub states: HashSet<u64>,
    pub transitions: HashSet<(u64, u64)>,
    pub outcomes: HashSet<u64>,
    pub found: BTreeMap<String, Found>,
    pub max_points: usize,
    pub choice_points_total: u64,
    pub bound: u32,
    pub bound_completed: bool,
    pub pruned_by_bound: u64,
    pub caps_hit: Vec<String>,
    pub machinery_errors: Vec<String>,
    pub rechecks: u64,
    pub blocked_runs: u64,
    pub panics_seen: BTreeMap<String, u64>,
    pub scenarios: usize,
    pub samples: Vec<serde_json::Value>,
    pub wall_s: f64,
    pub init_errors: u64,
    pub max_events: usize,
}

pub struct Limits {
    pub max_execs: u64,
    pub max_wall_s: f64,
    pub workers: usize,
}

impl Default for Limits {
    fn default() -> Self {
        Limits { max_execs: 2_000_000, max_wall_s: 3000.0, workers: 16 }
    }
}

/// Explore all schedules of all scenarios with at most `bound` deviations.
pub fn explore(scenarios: &[Scenario], oracle: &Oracle, bound: u32, limits: &Limits) -> Report {
    let t0 = Instant::now();
    let mut rep = Report { bound, scenarios: scenarios.len(), ..Default::default() };
    // levels[d] = stack of jobs with d deviations
    let mut levels: Vec<Vec<Job>> = (0..=bound as usize + 1).map(|_| Vec::new()).collect();
    for (i, _) in scenarios.iter().enumerate().rev() {
        levels[0].push(Job { sidx: i, prefix: vec![], expect_n: vec![], devs: 0, recheck_of: None });
    }
    // make sure this thread's hash keys exist before any fork, so that every worker (and hence every
    // execution) iterates hash maps identically
    let _keys = std::collections::hash_map::RandomState::new();
    let _ = std::fs::create_dir_all(work_dir());
    let mut workers: Vec<Worker> = Vec::new();
    for w in 0..limits.workers.max(1) {
        let nw = spawn_worker(scenarios, oracle, w, &workers);
        workers.push(nw);
    }
    let mut capped = false;
    loop {
        // fill idle workers
        for w in workers.iter_mut() {
            if w.job.is_some() || capped {
                continue;
            }
            let job = match levels.iter_mut().find(|l| !l.is_empty()) {
                Some(l) => l.pop().unwrap(),
                None => break,
            };
            if rep.executions >= limits.max_execs || t0.elapsed().as_secs_f64() > limits.max_wall_s {
                capped = true;
                rep.caps_hit.push(format!(
                    "stopped after {} executions / {:.0}s with {} jobs still queued",
                    rep.executions,
                    t0.elapsed().as_secs_f64(),
                    levels.iter().map(|l| l.len()).sum::<usize>() + 1
                ));
                break;
            }
            let body = serde_json::to_vec(&(job.sidx, &job.prefix, &job.expect_n)).unwrap();
            let mut frame = (body.len() as u32).to_le_bytes().to_vec();
            frame.extend_from_slice(&body);
            if !write_all_fd(std::os::unix::io::AsRawFd::as_raw_fd(&w.to), &frame) {
                rep.machinery_errors.push("a worker process died".into());
                capped = true;
                break;
            }
            w.job = Some(job);
        }
        let busy: Vec<usize> = workers.iter().enumerate().filter(|(_, w)| w.job.is_some()).map(|(i, _)| i).collect();
        if busy.is_empty() {
            break;
        }
        let mut pfds: Vec<libc::pollfd> = busy
            .iter()
            .map(|i| libc::pollfd { fd: std::os::unix::io::AsRawFd::as_raw_fd(&workers[*i].from), events: libc::POLLIN, revents: 0 })
            .collect();
        unsafe {
            libc::poll(pfds.as_mut_ptr(), pfds.len() as libc::nfds_t, 1000);
        }
        for (k, wi) in busy.iter().enumerate() {
            if pfds[k].revents == 0 {
                continue;
            }
            let w = &mut workers[*wi];
            let mut tmp = [0u8; 65536];
            let mut dead = false;
            loop {
                match w.from.read(&mut tmp) {
                    Ok(0) => {
                        dead = true;
                        break;
                    }
                    Ok(n) => w.buf.extend_from_slice(&tmp[..n]),
                    Err(e) if e.kind() == std::io::ErrorKind::WouldBlock => break,
                    Err(_) => {
                        dead = true;
                        break;
                    }
                }
            }
            if dead {
                let job = w.job.take();
                rep.machinery_errors.push(format!("worker {} died while running {:?}", wi, job.map(|j| (scenarios[j.sidx].name.clone(), j.prefix))));
                capped = true;
                continue;
            }
            if w.buf.len() < 8 {
                continue;
            }
            let len = u32::from_le_bytes(w.buf[0..4].try_into().unwrap()) as usize;
            if w.buf.len() < 8 + len {
                continue;
            }
            let status = i32::from_le_bytes(w.buf[4..8].try_into().unwrap());
            let payload: Vec<u8> = w.buf[8..8 + len].to_vec();
            w.buf.drain(..8 + len);
            let job = w.job.take().unwrap();
            let r: ExecResult = match serde_json::from_slice(&payload) {
                Ok(r) => r,
                Err(_) => {
                    rep.machinery_errors.push(format!(
                        "child for scenario {} prefix {:?} died (wait status {}) without a result",
                        scenarios[job.sidx].name, job.prefix, status
                    ));
                    continue;
                }
            };
            process_result(scenarios, &mut rep, &mut levels, job, r, bound);
        }
    }
    for w in workers {
        drop(w.to);
        let mut status = 0i32;
        unsafe {
            libc::waitpid(w.pid, &mut status, 0);
        }
    }
    rep.bound_completed = !capped && rep.machinery_errors.is_empty();
    rep.wall_s = t0.elapsed().as_secs_f64();
    let _ = std::fs::remove_dir_all(work_dir());
    rep
}

fn process_result(scenarios: &[Scenario], rep: &mut Report, levels: &mut [Vec<Job>], job: Job, r: ExecResult, bound: u32) {
    if let Some(c) = &r.crashed {
        rep.machinery_errors.push(format!("scenario {} prefix {:?}: {}", scenarios[job.sidx].name, job.prefix, c));
        return;
    }
    if let Some(d) = &r.diverged {
        rep.machinery_errors.push(format!("nondeterminism: scenario {} prefix {:?}: {}", scenarios[job.sidx].name, job.prefix, d));
        return;
    }
    if let Some((h, pts)) = &job.recheck_of {
        rep.rechecks += 1;
        let same = *h == r.outcome_hash && pts.len() == r.points.len() && pts.iter().zip(r.points.iter()).all(|(a, b)| a.n == b.n && a.chosen == b.chosen);
        if !same {
            rep.machinery_errors.push(format!(
                "nondeterminism: replaying scenario {} choices {:?} gave a different observation",
                scenarios[job.sidx].name, job.prefix
            ));
        }
        return;
    }
    rep.executions += 1;
    *rep.by_devs.entry(job.devs).or_insert(0) += 1;
    rep.outcomes.insert(r.outcome_hash);
    rep.max_points = rep.max_points.max(r.points.len());
    rep.max_events = rep.max_events.max(r.events);
    rep.choice_points_total += r.points.len() as u64;
    if r.blocked {
        rep.blocked_runs += 1;
    }
    if r.init_error.is_some() {
        rep.init_errors += 1;
    }
    for p in &r.panics {
        *rep.panics_seen.entry(p.clone()).or_insert(0) += 1;
    }
    let mut prev: Option<u64> = None;
    for s in &r.state_hashes {
        // tag states by scenario so different scenarios never merge
        let mut h = std::collections::hash_map::DefaultHasher::new();
        (job.sidx, s).hash(&mut h);
        let s = h.finish();
        rep.states.insert(s);
        if let Some(p) = prev {
            if p != s {
                rep.transitions.insert((p, s));
            }
        }
        prev = Some(s);
    }
    let choices: Vec<u32> = r.points.iter().map(|p| p.chosen).collect();
    for v in &r.violations {
        let e = rep.found.entry(v.sig.clone()).or_insert_with(|| Found {
            violation: v.clone(),
            scenario: scenarios[job.sidx].name.clone(),
            sidx: job.sidx,
            choices: choices.clone(),
            labels: vec![],
            devs: job.devs,
            count: 0,
        });
        e.count += 1;
    }
    if rep.samples.len() < 3 && (rep.executions == 1 || rep.executions % 97 == 0) {
        rep.samples.push(serde_json::json!({
            "scenario": scenarios[job.sidx].name,
            "choices": choices,
            "events": r.events,
            "deviations": job.devs,
            "violations": r.violations.len(),
        }));
    }
    // determinism self-check on a sample of executions
    if rep.executions <= 3 || rep.executions % 499 == 0 {
        levels[0].push(Job {
            sidx: job.sidx,
            prefix: choices.clone(),
            expect_n: r.points.iter().map(|p| p.n).collect(),
            devs: job.devs,
            recheck_of: Some((r.outcome_hash, r.points.clone())),
        });
    }
    // expand
    let ns: Vec<u32> = r.points.iter().map(|p| p.n).collect();
    let mut devs_before = job.devs; // deviations within the prefix are all counted in job.devs
    for i in job.prefix.len()..r.points.len() {
        // points beyond the prefix were all default (0) choices
        let _ = &mut devs_before;
        let cost = job.devs + 1;
        if cost > bound {
            rep.pruned_by_bound += (r.points[i].n - 1) as u64;
            continue;
        }
        for alt in 1..r.points[i].n {
            let mut p = choices[..i].to_vec();
            p.push(alt);
            levels[cost as usize].push(Job { sidx: job.sidx, prefix: p, expect_n: ns[..=i].to_vec(), devs: cost, recheck_of: None });
        }
    }
}

/// Run a single schedule with tracing in a forked child and return its result.
pub fn run_single(sc: &Scenario, oracle: &Oracle, choices: &[u32]) -> Option<ExecResult> {
    run_n(sc, oracle, choices, 1).pop().flatten()
}

/// Run the same schedule `n` times, every child forked from the same parent state (the children are
/// all started before any result is read, so that the parent creates no hash map in between and every
/// child iterates hash maps in the same order: replays must give identical observations).
pub fn run_n(sc: &Scenario, oracle: &Oracle, choices: &[u32], n: usize) -> Vec<Option<ExecResult>> {
    // make sure this thread's hash keys exist before forking: otherwise every child draws its own
    let _keys = std::collections::hash_map::RandomState::new();
    let mut sc = sc.clone();
    sc.opts.trace = true;
    let scs = vec![sc];
    let mut children = Vec::with_capacity(n);
    for i in 0..n {
        children.push(spawn_child(&scs, oracle, Job { sidx: 0, prefix: choices.to_vec(), expect_n: vec![], devs: 0, recheck_of: None }, 999_990 + i as u64));
    }
    let mut out = Vec::with_capacity(n);
    for mut c in children {
        unsafe {
            let flags = libc::fcntl(std::os::unix::io::AsRawFd::as_raw_fd(&c.file), libc::F_GETFL);
            libc::fcntl(std::os::unix::io::AsRawFd::as_raw_fd(&c.file), libc::F_SETFL, flags & !libc::O_NONBLOCK);
        }
        let mut buf = Vec::new();
        let _ = c.file.read_to_end(&mut buf);
        let mut status = 0;
        unsafe {
            libc::waitpid(c.pid, &mut status, 0);
        }
        let _ = std::fs::remove_file(&c.cfg);
        out.push(serde_json::from_slice(&buf).ok());
    }
    out
}
