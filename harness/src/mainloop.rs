//! The real accept / signal / drain loop of `src/main.rs`, extracted verbatim at
//! build time (build.rs) and closed with channel-backed stand-ins for the
//! listener and the three unix signal streams.

use log::{debug, error, info, warn};
use pgcat::config::{get_config, reload_config};
use pgcat::format_duration;
use pgcat::messages::configure_socket;
use pgcat::verif::net::TcpStream;
use std::net::SocketAddr;
use tokio::sync::{broadcast, mpsc};

pub struct Listener {
    pub rx: mpsc::UnboundedReceiver<(TcpStream, SocketAddr)>,
}

impl Listener {
    pub async fn accept(&mut self) -> std::io::Result<(TcpStream, SocketAddr)> {
        match self.rx.recv().await {
            Some(x) => Ok(x),
            None => std::future::pending().await,
        }
    }
}

pub struct SignalRx {
    pub rx: mpsc::UnboundedReceiver<()>,
}

impl SignalRx {
    /// Same shape as `tokio::signal::unix::Signal::recv`.
    pub async fn recv(&mut self) -> Option<()> {
        match self.rx.recv().await {
            Some(()) => Some(()),
            None => std::future::pending().await,
        }
    }
}

include!(concat!(env!("OUT_DIR"), "/main_loop_extracted.rs"));
