//! `loom` engine driver: extracts the pause/resume core from /repo/src/pool.rs,
//! builds the loom crate and runs every model, each in its own process (loom
//! failures may abort).

use crate::explore::Violation;
use crate::report::Part;
use serde_json::json;
use std::process::Command;

pub const TESTS: &[&str] = &[
    "pause_resume_one_client",
    "pause_resume_two_clients",
    "pause_resume_twice_one_client_two_waits",
    "redundant_resume_then_pause_resume",
    "redundant_resume_then_pause_resume_two_clients",
];

pub fn run(tier: &str) -> Part {
    let mut part = Part { engine: "loom".into(), exhaustive: true, ..Default::default() };
    let dir = "/verif/loom_pause";
    let ex = Command::new("python3").arg(format!("{}/extract.py", dir)).output();
    match ex {
        Ok(o) if o.status.success() => {}
        Ok(o) => {
            part.machinery_errors.push(format!("loom: extraction failed: {}", String::from_utf8_lossy(&o.stdout)));
            return part;
        }
        Err(e) => {
            part.machinery_errors.push(format!("loom: cannot run extract.py: {}", e));
            return part;
        }
    }
    let build = Command::new("cargo").args(["test", "--release", "--offline", "--no-run"]).current_dir(dir).env("CARGO_NET_OFFLINE", "true").output();
    match build {
        Ok(o) if o.status.success() => {}
        Ok(o) => {
            // the extracted bodies no longer fit the two-field model: that is a refactor the harness must follow
            part.machinery_errors.push(format!("loom: build of the extracted pause core failed: {}", String::from_utf8_lossy(&o.stderr).lines().filter(|l| l.starts_with("error")).take(3).collect::<Vec<_>>().join(" | ")));
            return part;
        }
        Err(e) => {
            part.machinery_errors.push(format!("loom: cargo: {}", e));
            return part;
        }
    }
    let bound = if tier == "thorough" { "4" } else { "3" };
    let mut total = 0u64;
    for t in TESTS {
        let o = Command::new("cargo")
            .args(["test", "--release", "--offline", "--test", "pause", t, "--", "--exact", "--nocapture", "--test-threads=1"])
            .current_dir(dir)
            .env("CARGO_NET_OFFLINE", "true")
            .env("LOOM_MAX_PREEMPTIONS", bound)
            .output();
        let o = match o {
            Ok(o) => o,
            Err(e) => {
                part.machinery_errors.push(format!("loom: cannot run {}: {}", t, e));
                continue;
            }
        };
        let out = format!("{}\n{}", String::from_utf8_lossy(&o.stdout), String::from_utf8_lossy(&o.stderr));
        let iters: u64 = out.lines().find_map(|l| l.split("iterations=").nth(1).and_then(|x| x.trim().parse().ok())).unwrap_or(0);
        total += iters;
        let passed = o.status.success() && out.contains("1 passed");
        if passed {
            part.samples.push(json!({"model": t, "interleavings": iters, "preemption_bound": bound}));
        } else {
            let reason = out
                .lines()
                .find(|l| l.contains("deadlock") || l.contains("panicked") || l.contains("released from PAUSE"))
                .unwrap_or("loom model failed")
                .trim()
                .to_string();
            let kind = if out.contains("deadlock") { "deadlock" } else { "assertion" };
            let v = Violation {
                oracle: "C16.loom".into(),
                sig: format!("C16.loom:{}:{}", kind, t),
                detail: format!("loom model {} (pause/resume core extracted from pool.rs, preemption bound {}): {} -- a client thread stays blocked after the last RESUME, or was released without one", t, bound, reason),
            };
            let replay = json!({"engine": "loom", "property": "C16", "violation": v, "replay": format!("cd /verif/loom_pause && python3 extract.py && LOOM_MAX_PREEMPTIONS={} cargo test --release --offline --test pause {} -- --exact --nocapture", bound, t)});
            part.violations.push((v, replay, 1));
        }
    }
    part.states = total.max(1);
    part.transitions = total.max(1);
    part.traces = total;
    part.evaluations = total;
    part.distinct = TESTS.len() as u64;
    part.extra.insert("preemption_bound".into(), json!(bound));
    part.extra.insert("interleavings_explored".into(), json!(total));
    part.rule = format!(
        "loom: the verbatim bodies of ConnectionPool::{{pause, resume, paused, wait_paused}} extracted from /repo/src/pool.rs, with loom's AtomicBool (Relaxed modelled) and a Notify shim with tokio's contract; 5 thread configurations (admin P;R / P;R;P;R / R;P;R against 1-2 clients calling wait_paused once or twice), every interleaving with <= {} preemptions; oracles: no thread left blocked after the final RESUME (loom deadlock detection), a held client is released only by a RESUME",
        bound
    );
    part.assumptions = vec!["Notify shim: a Notified future observes every notify_waiters() issued after its creation; notify_one wakes one waiter or stores one permit (tokio's documented contract)".into(), "`async fn`/`.await` of wait_paused are rewritten mechanically to blocking calls on loom threads".into()];
    part
}
