//! Reference PostgreSQL backend ("mock PG"): a deliberately boring session
//! automaton written from the protocol documentation. It is the trusted base of
//! the `sim` engine: every oracle judges pgcat by what this automaton received
//! and by the session state it was in at that instant.

use crate::wire::{self, Msg};
use parking_lot::Mutex;
use std::collections::{BTreeMap, VecDeque};
use std::sync::Arc;
use tokio::io::{AsyncReadExt, AsyncWriteExt, DuplexStream};

pub type Shared = Arc<Mutex<Net>>;

#[derive(Clone, Debug, PartialEq, Eq)]
pub enum Accept {
    Up,
    Refuse,
    Hang,
    /// packets are dropped: the connect fails with a timeout after the kernel's SYN retries (127 s)
    Blackhole,
}

#[derive(Clone, Debug, PartialEq, Eq)]
pub enum StartupMode {
    Normal,
    /// accept the TCP connection, never answer the startup packet
    HangAfterAccept,
    /// accept then close at once
    CloseAfterAccept,
    /// answer the startup packet with a FATAL ErrorResponse
    ErrorAtStartup,
}

#[derive(Clone, Debug, PartialEq, Eq)]
pub enum Gate {
    Off,
    /// every flushed reply (up to Z / G / H / flush) waits for a Deliver event
    PerReply,
    /// every backend message waits for a Deliver event
    PerMessage,
}

#[derive(Clone, Debug, PartialEq, Eq)]
pub enum Matcher {
    Any,
    HealthCheck,
    /// simple query / parse text contains
    Contains(String),
    /// anything that is not a recognised pooler control query
    ClientOriginated,
}

#[derive(Clone, Debug, PartialEq, Eq)]
pub enum FaultKind {
    /// stop answering, keep the socket open
    Hang,
    /// close the socket instead of answering
    Close,
    /// write the first k bytes of the answer, then close
    CloseAfterBytes(usize),
    /// answer with ErrorResponse (keeps protocol state consistent)
    Error,
    /// answer normally, but only after this many (virtual) milliseconds
    Delay(u64),
}

#[derive(Clone, Debug, PartialEq, Eq)]
pub struct Fault {
    pub on: Matcher,
    pub kind: FaultKind,
    pub once: bool,
}

/// Raw scripted reply (C03): when a client-originated request arrives, the
/// backend answers with exactly these bytes, written in the given segments.
#[derive(Clone, Debug, Default)]
pub struct RawScript {
    /// replies[i] answers the i-th client-originated request on this server
    pub replies: Vec<Vec<u8>>,
    /// absolute offsets (into the reply) at which the TCP write is cut
    pub cuts: Vec<Vec<usize>>,
    pub used: usize,
}

#[derive(Clone, Debug)]
pub struct ServerSpec {
    pub addr: String,
    pub label: String,
    pub accept: Accept,
    pub startup: StartupMode,
    pub gate: Gate,
    pub faults: Vec<Fault>,
    pub raw: Option<RawScript>,
    /// user -> "md5<hex>" stored hash, served to auth_query lookups
    pub shadow: BTreeMap<String, String>,
    /// extra byte chunking of every reply (cut every n bytes), 0 = none
    pub chunk: usize,
    /// read client data at all? (false = accept then never read: back-pressure)
    pub reads: bool,
    /// established connections stop reading while this is set (back-pressure that goes away again)
    pub pause_reads: bool,
}

impl ServerSpec {
    pub fn new(addr: &str, label: &str) -> ServerSpec {
        ServerSpec {
            addr: addr.to_string(),
            label: label.to_string(),
            accept: Accept::Up,
            startup: StartupMode::Normal,
            gate: Gate::Off,
            faults: vec![],
            raw: None,
            shadow: BTreeMap::new(),
            chunk: 0,
            reads: true,
            pause_reads: false,
        }
    }
}

#[derive(Clone, Debug, PartialEq, Eq)]
pub struct StmtDef {
    pub query: String,
    pub types: Vec<i32>,
    pub via_sql: bool,
}

/// Snapshot of the automaton's session state (what an oracle may inspect).
#[derive(Clone, Debug, PartialEq, Eq, Default)]
pub struct Snap {
    pub status: u8,
    pub in_copy_in: bool,
    pub gucs: BTreeMap<String, String>,
    pub role: String,
    pub stmts: BTreeMap<String, StmtDef>,
    pub portals: Vec<String>,
    pub skip: bool,
    pub unsent: usize,
    /// extended-protocol messages have been processed since the last Sync (or simple Query): the implicit
    /// transaction they run in is still open
    pub pending_sync: bool,
}

impl Snap {
    /// Non-default GUCs.
    pub fn dirty_gucs(&self) -> Vec<(String, String)> {
        let d = default_gucs();
        self.gucs
            .iter()
            .filter(|(k, v)| d.get(*k) != Some(*v))
            .map(|(k, v)| (k.clone(), v.clone()))
            .collect()
    }
}

#[derive(Clone, Debug)]
pub enum Rec {
    Event { idx: usize, actor: String, label: String },
    CSend { c: usize, bytes: Vec<u8> },
    CRecv { c: usize, msg: Msg },
    CEof { c: usize },
    CClosed { c: usize, kind: String },
    BAccept { conn: usize, server: String },
    BStartup { conn: usize, params: Vec<(String, String)> },
    BCancel { conn: usize, server: String, pid: i32, key: i32 },
    BRecv { conn: usize, msg: Msg, st: Snap },
    /// a statement executed by the automaton (simple query part or Execute)
    BExec { conn: usize, sql: String, via: u8, st: Snap, stmt: Option<StmtDef> },
    BSend { conn: usize, bytes: Vec<u8> },
    BClose { conn: usize, by: String },
    Panic { msg: String },
    Note { msg: String },
    /// snapshot of pooler-side state read through pgcat's public API (JSON)
    Probe { data: String },
}

#[derive(Clone, Debug)]
pub struct Entry {
    pub seq: usize,
    pub t_ms: u64,
    pub rec: Rec,
}

pub struct ConnInfo {
    pub id: usize,
    pub server: String,
    pub label: String,
    pub pid: i32,
    pub key: i32,
    pub open: bool,
    pub is_cancel: bool,
    pub snap: Snap,
    /// number of chunks waiting for a Deliver permit
    pub gated_waiting: usize,
    pub permits: Arc<tokio::sync::Semaphore>,
    pub msgs_in: usize,
    pub user: String,
    pub database: String,
    pub application_name: String,
    pub kill: Arc<tokio::sync::Notify>,
}

pub struct Net {
    pub log: Vec<Entry>,
    pub servers: BTreeMap<String, ServerSpec>,
    pub conns: Vec<ConnInfo>,
    pub start: Option<tokio::time::Instant>,
}

impl Net {
    pub fn new() -> Net {
        Net { log: vec![], servers: BTreeMap::new(), conns: vec![], start: None }
    }
    pub fn push(&mut self, rec: Rec) {
        let t_ms = match self.start {
            Some(s) => tokio::time::Instant::now().saturating_duration_since(s).as_millis() as u64,
            None => 0,
        };
        let seq = self.log.len();
        self.log.push(Entry { seq, t_ms, rec });
    }
}

pub fn default_gucs() -> BTreeMap<String, String> {
    let mut m = BTreeMap::new();
    for (k, v) in [
        ("application_name", ""),
        ("client_encoding", "UTF8"),
        ("DateStyle", "ISO, MDY"),
        ("TimeZone", "Etc/UTC"),
        ("standard_conforming_strings", "on"),
        ("IntervalStyle", "postgres"),
        ("integer_datetimes", "on"),
        ("is_superuser", "off"),
        ("server_encoding", "UTF8"),
        ("server_version", "14.9"),
        ("statement_timeout", "0"),
        ("search_path", "\"$user\", public"),
        ("work_mem", "4MB"),
    ] {
        m.insert(k.to_string(), v.to_string());
    }
    m
}

const REPORTED: &[&str] = &[
    "application_name",
    "client_encoding",
    "DateStyle",
    "TimeZone",
    "standard_conforming_strings",
    "IntervalStyle",
    "integer_datetimes",
    "is_superuser",
    "server_encoding",
    "server_version",
];

fn canon_guc(name: &str) -> String {
    let l = name.to_ascii_lowercase();
    for k in default_gucs().keys() {
        if k.to_ascii_lowercase() == l {
            return k.clone();
        }
    }
    l
}

/// Queries the pooler itself issues on a server connection.
pub fn is_pooler_control(sql: &str) -> bool {
    let s = sql.trim();
    if s == ";" || s == "ROLLBACK" {
        return true;
    }
    if s.starts_with("RESET ROLE;") {
        return true;
    }
    // sync_parameters: SET k TO 'v'; for tracked keys only
    if s.starts_with("SET ") && s.ends_with(';') {
        let tracked = ["client_encoding", "DateStyle", "TimeZone", "standard_conforming_strings", "application_name"];
        return tracked.iter().any(|t| s.starts_with(&format!("SET {} TO '", t)));
    }
    if s.contains("pg_shadow") || s.contains("pg_authid") {
        return true;
    }
    false
}

/// Quote-aware split of a simple-query string into statements.
pub fn split_statements(sql: &str) -> Vec<String> {
    let mut out = Vec::new();
    let mut cur = String::new();
    let mut in_s = false;
    let mut in_d = false;
    let mut chars = sql.chars().peekable();
    while let Some(c) = chars.next() {
        match c {
            '\'' if !in_d => {
                in_s = !in_s;
                cur.push(c);
            }
            '"' if !in_s => {
                in_d = !in_d;
                cur.push(c);
            }
            ';' if !in_s && !in_d => {
                out.push(cur.trim().to_string());
                cur.clear();
            }
            _ => cur.push(c),
        }
    }
    if !cur.trim().is_empty() {
        out.push(cur.trim().to_string());
    }
    out
}

fn unquote(v: &str) -> String {
    let v = v.trim();
    if v.len() >= 2 && v.starts_with('\'') && v.ends_with('\'') {
        v[1..v.len() - 1].replace("''", "'")
    } else if v.len() >= 2 && v.starts_with('"') && v.ends_with('"') {
        v[1..v.len() - 1].to_string()
    } else {
        v.to_string()
    }
}

/// Is a SET value syntactically acceptable to PostgreSQL's lexer (single
/// quoted string with doubled inner quotes, or a bare word / number / list)?
fn set_value_ok(v: &str) -> bool {
    let v = v.trim();
    if v.starts_with('\'') {
        // must be one well-formed literal
        let inner = &v[1..];
        let b: Vec<char> = inner.chars().collect();
        let mut i = 0;
        while i < b.len() {
            if b[i] == '\'' {
                if i + 1 < b.len() && b[i + 1] == '\'' {
                    i += 2;
                    continue;
                }
                return i == b.len() - 1;
            }
            i += 1;
        }
        false
    } else {
        !v.is_empty() && !v.contains('\'')
    }
}

struct Session {
    net: Shared,
    id: usize,
    addr: String,
    snap: Snap,
    txn_snapshot: Option<BTreeMap<String, String>>,
    txn_session_sets: BTreeMap<String, String>,
    txn_role_before: String,
    reported: BTreeMap<String, String>,
    out: Vec<u8>,
    copy_rows: usize,
    copy_fail_at_done: bool,
    /// the COPY in progress was started by an Execute (extended protocol): no ReadyForQuery before Sync
    copy_via_ext: bool,
    /// send what is buffered without waiting for a flushing message (errors are sent at once)
    force_flush: bool,
    copy_rest: VecDeque<String>,
    portals: BTreeMap<String, (String, Option<StmtDef>)>,
}

enum Flow {
    Continue,
    Close,
    Hang,
    Delay(u64),
}

impl Session {
    fn log(&self, rec: Rec) {
        self.net.lock().push(rec);
    }

    fn publish(&self) {
        let mut n = self.net.lock();
        let mut s = self.snap.clone();
        s.portals = self.portals.keys().cloned().collect();
        s.unsent = self.out.len();
        n.conns[self.id].snap = s;
    }

    fn emit(&mut self, bytes: Vec<u8>) {
        self.out.extend_from_slice(&bytes);
    }

    fn error(&mut self, code: &str, message: &str) {
        self.emit(wire::error_response("ERROR", code, message));
        if self.snap.status == b'T' {
            self.snap.status = b'E';
        }
    }

    fn report_gucs(&mut self) {
        for k in REPORTED {
            let cur = self.snap.gucs.get(*k).cloned().unwrap_or_default();
            if self.reported.get(*k) != Some(&cur) {
                self.reported.insert(k.to_string(), cur.clone());
                self.emit(wire::parameter_status(k, &cur));
            }
        }
    }

    fn ready(&mut self) {
        self.report_gucs();
        let st = self.snap.status;
        self.emit(wire::ready(st));
    }

    fn end_txn(&mut self, commit: bool) {
        if let Some(snapshot) = self.txn_snapshot.take() {
            if commit {
                let mut g = snapshot;
                for (k, v) in std::mem::take(&mut self.txn_session_sets) {
                    g.insert(k, v);
                }
                self.snap.gucs = g;
            } else {
                self.snap.gucs = snapshot;
                self.snap.role = self.txn_role_before.clone();
            }
        }
        self.txn_session_sets.clear();
        self.snap.status = b'I';
        self.portals.clear();
    }

    /// Execute one SQL statement. `via`: b'Q' simple, b'E' extended Execute.
    /// Returns false if the rest of a simple query must be abandoned.
    fn exec(&mut self, sql: &str, via: u8, stmt: Option<StmtDef>, max_rows: i32) -> bool {
        let st = {
            let mut s = self.snap.clone();
            s.portals = self.portals.keys().cloned().collect();
            s
        };
        self.log(Rec::BExec { conn: self.id, sql: sql.to_string(), via, st, stmt });
        let body = strip_leading_comments(sql);
        let up = body.to_ascii_uppercase();
        let words: Vec<&str> = up.split_whitespace().collect();
        let w0 = words.first().copied().unwrap_or("");
        let w1 = words.get(1).copied().unwrap_or("");

        let is_end = matches!(w0, "COMMIT" | "END" | "ROLLBACK" | "ABORT");
        if self.snap.status == b'E' && !(is_end && w1 != "TO") {
            self.emit(wire::error_response(
                "ERROR",
                "25P02",
                "current transaction is aborted, commands ignored until end of transaction block",
            ));
            return false;
        }
        if sql.contains("ERR!") {
            self.error("42601", &format!("forced error in: {}", sql));
            return false;
        }
        match w0 {
            "" => {
                self.emit(wire::empty_query());
            }
            "BEGIN" | "START" => {
                if self.snap.status == b'I' {
                    self.snap.status = b'T';
                    self.txn_snapshot = Some(self.snap.gucs.clone());
                    self.txn_role_before = self.snap.role.clone();
                    self.txn_session_sets.clear();
                }
                self.emit(wire::command_complete("BEGIN"));
            }
            "COMMIT" | "END" => {
                let failed = self.snap.status == b'E';
                self.end_txn(!failed);
                self.emit(wire::command_complete(if failed { "ROLLBACK" } else { "COMMIT" }));
            }
            "ROLLBACK" | "ABORT" => {
                if w1 == "TO" {
                    if self.snap.status == b'E' {
                        self.snap.status = b'T';
                    }
                    self.emit(wire::command_complete("ROLLBACK"));
                } else {
                    self.end_txn(false);
                    self.emit(wire::command_complete("ROLLBACK"));
                }
            }
            "SET" => {
                // SET [SESSION|LOCAL] name {TO|=} value | SET ROLE x
                let rest = body[3..].trim();
                let (local, rest) = if rest.to_ascii_uppercase().starts_with("LOCAL ") {
                    (true, rest[6..].trim())
                } else if rest.to_ascii_uppercase().starts_with("SESSION ")
                    && !rest.to_ascii_uppercase().starts_with("SESSION AUTHORIZATION")
                {
                    (false, rest[8..].trim())
                } else {
                    (false, rest)
                };
                let rup = rest.to_ascii_uppercase();
                if rup.starts_with("ROLE ") {
                    self.snap.role = unquote(&rest[5..]);
                    self.emit(wire::command_complete("SET"));
                } else {
                    let (name, value) = if let Some(p) = rup.find(" TO ") {
                        (rest[..p].trim(), rest[p + 4..].trim())
                    } else if let Some(p) = rest.find('=') {
                        (rest[..p].trim(), rest[p + 1..].trim())
                    } else {
                        (rest, "")
                    };
                    if !set_value_ok(value) {
                        self.error("42601", &format!("syntax error in SET value: {}", value));
                        return false;
                    }
                    let k = canon_guc(name);
                    let v = if value.eq_ignore_ascii_case("default") {
                        default_gucs().get(&k).cloned().unwrap_or_default()
                    } else {
                        unquote(value)
                    };
                    self.snap.gucs.insert(k.clone(), v.clone());
                    if !local && self.txn_snapshot.is_some() {
                        self.txn_session_sets.insert(k, v);
                    }
                    self.emit(wire::command_complete("SET"));
                }
            }
            "RESET" => {
                if w1 == "ALL" {
                    let mut d = default_gucs();
                    // RESET ALL restores startup-packet values for options set there
                    if let Some(a) = self.net.lock().conns.get(self.id).map(|c| c.application_name.clone()) {
                        d.insert("application_name".into(), a);
                    }
                    self.snap.gucs = d.clone();
                    if self.txn_snapshot.is_some() {
                        self.txn_session_sets = d;
                    }
                } else if w1 == "ROLE" {
                    self.snap.role = "none".into();
                } else {
                    let k = canon_guc(body[5..].trim());
                    let v = default_gucs().get(&k).cloned().unwrap_or_default();
                    self.snap.gucs.insert(k.clone(), v.clone());
                    if self.txn_snapshot.is_some() {
                        self.txn_session_sets.insert(k, v);
                    }
                }
                self.emit(wire::command_complete("RESET"));
            }
            "DISCARD" => {
                self.snap.gucs = default_gucs();
                self.snap.role = "none".into();
                self.snap.stmts.clear();
                self.emit(wire::command_complete("DISCARD ALL"));
            }
            "DEALLOCATE" => {
                let target = if w1 == "PREPARE" { words.get(2).copied().unwrap_or("") } else { w1 };
                if target == "ALL" {
                    self.snap.stmts.clear();
                    self.emit(wire::command_complete("DEALLOCATE ALL"));
                } else {
                    let name = body.split_whitespace().last().unwrap_or("").to_string();
                    let name = name.to_ascii_lowercase();
                    if self.snap.stmts.remove(&name).is_none() {
                        self.error("26000", &format!("prepared statement \"{}\" does not exist", name));
                        return false;
                    }
                    self.emit(wire::command_complete("DEALLOCATE"));
                }
            }
            "PREPARE" => {
                if w1 == "TRANSACTION" {
                    self.emit(wire::command_complete("PREPARE TRANSACTION"));
                } else {
                    let name = body.split_whitespace().nth(1).unwrap_or("").to_string();
                    let name = name.split('(').next().unwrap_or("").to_ascii_lowercase();
                    if self.snap.stmts.contains_key(&name) {
                        self.error("42P05", &format!("prepared statement \"{}\" already exists", name));
                        return false;
                    }
                    self.snap.stmts.insert(
                        name,
                        StmtDef { query: body.to_string(), types: vec![], via_sql: true },
                    );
                    self.emit(wire::command_complete("PREPARE"));
                }
            }
            "COPY" => {
                if up.contains("FROM STDIN") {
                    self.snap.in_copy_in = true;
                    self.copy_via_ext = via == b'E';
                    self.copy_fail_at_done = sql.contains("failatdone");
                    self.copy_rows = 0;
                    self.emit(wire::copy_in_response());
                    return true;
                } else if up.contains("TO STDOUT") {
                    let (rows, size) = row_opts(sql);
                    self.emit(wire::copy_out_response());
                    if sql.contains("failmid") {
                        // the server gives up in the middle of the stream: no CopyDone, no CommandComplete
                        let d = format!("conn={}\t0\t{}\t\n", self.id, sql).into_bytes();
                        self.emit(wire::copy_data(&d));
                        self.error("XX001", &format!("COPY TO failed mid-stream: {}", sql));
                        return false;
                    }
                    for i in 0..rows {
                        let mut d = format!("conn={}\t{}\t{}\t", self.id, i, sql).into_bytes();
                        while d.len() < size {
                            d.push(b'x');
                        }
                        d.push(b'\n');
                        self.emit(wire::copy_data(&d));
                    }
                    self.emit(wire::copy_done());
                    self.emit(wire::command_complete(&format!("COPY {}", rows)));
                } else {
                    self.emit(wire::command_complete("COPY 0"));
                }
            }
            "SHOW" => {
                let k = canon_guc(body[4..].trim());
                let v = self.snap.gucs.get(&k).cloned().unwrap_or_default();
                if via == b'Q' {
                    self.emit(wire::row_description(&[&k]));
                }
                self.emit(wire::data_row(&[v.as_bytes()]));
                self.emit(wire::command_complete("SHOW"));
            }
            "SELECT" | "WITH" | "TABLE" | "VALUES" | "EXECUTE" | "FETCH" | "EXPLAIN" => {
                // auth_query lookups: SELECT ... FROM pg_shadow WHERE usename='$1'
                if up.contains("PG_SHADOW") || up.contains("PG_AUTHID") {
                    let shadow = self.net.lock().servers.get(&self.addr).map(|s| s.shadow.clone()).unwrap_or_default();
                    if via == b'Q' {
                        self.emit(wire::row_description(&["usename", "passwd"]));
                    }
                    let mut n = 0;
                    for (u, h) in shadow.iter() {
                        if sql.contains(&format!("'{}'", u)) {
                            self.emit(wire::data_row(&[u.as_bytes(), h.as_bytes()]));
                            n += 1;
                        }
                    }
                    self.emit(wire::command_complete(&format!("SELECT {}", n)));
                    return true;
                }
                let (rows, size) = row_opts(sql);
                if via == b'Q' {
                    self.emit(wire::row_description(&["conn", "seq", "sql", "pad"]));
                }
                let limit = if max_rows > 0 { (max_rows as usize).min(rows) } else { rows };
                for i in 0..limit {
                    let conn = format!("conn={}", self.id);
                    let idx = format!("{}", i);
                    let base = conn.len() + idx.len() + sql.len() + 2 + 16 + 5;
                    let pad = vec![b'x'; size.saturating_sub(base)];
                    self.emit(wire::data_row(&[conn.as_bytes(), idx.as_bytes(), sql.as_bytes(), &pad]));
                }
                if max_rows > 0 && rows > limit {
                    self.emit(wire::portal_suspended());
                } else {
                    self.emit(wire::command_complete(&format!("SELECT {}", limit)));
                }
            }
            "INSERT" => self.emit(wire::command_complete("INSERT 0 1")),
            "UPDATE" => self.emit(wire::command_complete("UPDATE 1")),
            "DELETE" => self.emit(wire::command_complete("DELETE 1")),
            other => {
                let tag = if w1.is_empty() { other.to_string() } else { format!("{} {}", other, w1) };
                self.emit(wire::command_complete(&tag));
            }
        }
        true
    }

    fn simple_query(&mut self, sql: &str) {
        let stmts = split_statements(sql);
        if stmts.is_empty() || stmts.iter().all(|s| s.is_empty()) {
            self.log(Rec::BExec { conn: self.id, sql: sql.to_string(), via: b'Q', st: self.snap.clone(), stmt: None });
            self.emit(wire::empty_query());
            self.ready();
            return;
        }
        let mut q: VecDeque<String> = stmts.into_iter().collect();
        self.run_queue(&mut q);
    }

    /// After an error that ends COPY IN: a COPY started by a simple Query is over (ReadyForQuery); one started
    /// by Execute leaves the backend discarding messages until Sync, which then brings the ReadyForQuery.
    fn after_copy_error(&mut self) {
        if self.copy_via_ext {
            self.snap.skip = true;
            self.flush_now();
        } else {
            self.ready();
        }
    }

    fn flush_now(&mut self) {
        self.force_flush = true;
    }

    fn run_queue(&mut self, q: &mut VecDeque<String>) {
        while let Some(s) = q.pop_front() {
            if s.is_empty() {
                continue;
            }
            let ok = self.exec(&s, b'Q', None, 0);
            if self.snap.in_copy_in {
                self.copy_rest = std::mem::take(q);
                return; // flush G, wait for copy data
            }
            if !ok {
                break;
            }
        }
        self.ready();
    }

    fn fault_for(&self, m: &Msg) -> Option<FaultKind> {
        let mut n = self.net.lock();
        let spec = n.servers.get_mut(&self.addr)?;
        let text = match m.code {
            b'Q' => m.text(),
            b'P' => wire::decode_parse(m).map(|p| p.query).unwrap_or_default(),
            _ => String::new(),
        };
        let mut hit = None;
        for (i, f) in spec.faults.iter().enumerate() {
            let matches = match &f.on {
                Matcher::Any => m.code == b'Q' || m.code == b'S',
                Matcher::HealthCheck => m.code == b'Q' && text.trim() == ";",
                Matcher::Contains(s) => (m.code == b'Q' || m.code == b'P') && text.contains(s.as_str()),
                Matcher::ClientOriginated => {
                    (m.code == b'Q' && !is_pooler_control(&text)) || m.code == b'S'
                }
            };
            if matches {
                hit = Some((i, f.kind.clone(), f.once));
                break;
            }
        }
        let (i, k, once) = hit?;
        if once {
            spec.faults.remove(i);
        }
        Some(k)
    }

    /// Process one frontend message; replies accumulate in self.out.
    fn handle(&mut self, m: &Msg) -> Flow {
        let mut st = self.snap.clone();
        st.portals = self.portals.keys().cloned().collect();
        st.unsent = self.out.len();
        self.log(Rec::BRecv { conn: self.id, msg: m.clone(), st });
        {
            let mut n = self.net.lock();
            n.conns[self.id].msgs_in += 1;
        }
        if self.snap.in_copy_in {
            match m.code {
                b'd' => {
                    self.copy_rows += 1;
                    return Flow::Continue;
                }
                b'c' if self.copy_fail_at_done => {
                    self.snap.in_copy_in = false;
                    self.error("23505", "duplicate key value violates unique constraint (COPY rejected at CopyDone)");
                    self.copy_rest.clear();
                    self.after_copy_error();
                    return Flow::Continue;
                }
                b'c' => {
                    self.snap.in_copy_in = false;
                    self.emit(wire::command_complete(&format!("COPY {}", self.copy_rows)));
                    if self.copy_via_ext {
                        // back in extended-query mode: ReadyForQuery comes with the Sync
                        self.flush_now();
                        return Flow::Continue;
                    }
                    let mut rest = std::mem::take(&mut self.copy_rest);
                    self.run_queue(&mut rest);
                    return Flow::Continue;
                }
                b'f' => {
                    self.snap.in_copy_in = false;
                    self.error("57014", "COPY from stdin failed");
                    self.copy_rest.clear();
                    self.after_copy_error();
                    return Flow::Continue;
                }
                b'H' | b'S' => return Flow::Continue,
                b'X' => return Flow::Close,
                _ => {
                    self.snap.in_copy_in = false;
                    self.error("08P01", "unexpected message type during COPY from stdin");
                    self.copy_rest.clear();
                    self.after_copy_error();
                    return Flow::Continue;
                }
            }
        }
        if let Some(k) = self.fault_for(m) {
            match k {
                FaultKind::Hang => return Flow::Hang,
                FaultKind::Close => return Flow::Close,
                FaultKind::CloseAfterBytes(n) => {
                    // compute the normal answer, truncate, close
                    self.dispatch(m);
                    self.out.truncate(n.min(self.out.len()));
                    return Flow::Close;
                }
                FaultKind::Delay(ms) => {
                    self.dispatch(m);
                    return Flow::Delay(ms);
                }
                FaultKind::Error => {
                    if m.code == b'Q' {
                        self.error("XX000", "injected server error");
                        self.ready();
                        return Flow::Continue;
                    }
                }
            }
        }
        self.dispatch(m)
    }

    fn dispatch(&mut self, m: &Msg) -> Flow {
        match m.code {
            b'Q' => {
                self.snap.skip = false;
                self.snap.pending_sync = false;
                // "a simple Query message also destroys the unnamed statement" (and the unnamed portal)
                self.snap.stmts.remove("");
                self.portals.remove("");
                let sql = m.text();
                if sql.contains("ERR!RAW") {
                    // echo the query bytes verbatim (as a server with SQL_ASCII encoding would)
                    let mut b = Vec::new();
                    b.push(b'S');
                    b.extend_from_slice(b"ERROR\0");
                    b.push(b'V');
                    b.extend_from_slice(b"ERROR\0");
                    b.push(b'C');
                    b.extend_from_slice(b"42601\0");
                    b.push(b'M');
                    b.extend_from_slice(b"syntax error at or near ");
                    b.extend(m.body.iter().cloned().filter(|x| *x != 0));
                    b.push(0);
                    b.push(0);
                    self.log(Rec::BExec { conn: self.id, sql: sql.clone(), via: b'Q', st: self.snap.clone(), stmt: None });
                    self.emit(wire::msg(b'E', &b));
                    if self.snap.status == b'T' {
                        self.snap.status = b'E';
                    }
                    self.ready();
                } else {
                    self.simple_query(&sql);
                }
            }
            b'X' => return Flow::Close,
            b'S' => {
                self.snap.skip = false;
                self.snap.pending_sync = false;
                if self.txn_snapshot.is_none() {
                    // implicit transaction ends: portals go, the unnamed statement stays
                    self.portals.clear();
                }
                self.ready();
            }
            b'H' => {}
            b'd' | b'c' | b'f' => {} // ignored outside COPY
            _ if self.snap.skip => {}
            b'P' | b'B' | b'D' | b'E' | b'C' if !self.snap.pending_sync => {
                self.snap.pending_sync = true;
                return self.dispatch(m);
            }
            b'P' => match wire::decode_parse(m) {
                None => {
                    self.error("08P01", "invalid message format");
                    self.snap.skip = true;
                }
                Some(p) => {
                    if self.snap.status == b'E' {
                        self.emit(wire::error_response("ERROR", "25P02", "current transaction is aborted, commands ignored until end of transaction block"));
                        self.snap.skip = true;
                    } else if p.query.contains("ERR!PARSE") {
                        self.error("42601", "syntax error (forced)");
                        self.snap.skip = true;
                    } else if !p.name.is_empty() && self.snap.stmts.contains_key(&p.name) {
                        self.error("42P05", &format!("prepared statement \"{}\" already exists", p.name));
                        self.snap.skip = true;
                    } else {
                        self.snap.stmts.insert(
                            p.name.clone(),
                            StmtDef { query: p.query, types: p.types, via_sql: false },
                        );
                        self.emit(wire::parse_complete());
                    }
                }
            },
            b'B' => match wire::decode_bind(m) {
                None => {
                    self.error("08P01", "invalid message format");
                    self.snap.skip = true;
                }
                Some((portal, stmt, _)) => match self.snap.stmts.get(&stmt).cloned() {
                    None => {
                        let msg = if stmt.is_empty() {
                            "unnamed prepared statement does not exist".to_string()
                        } else {
                            format!("prepared statement \"{}\" does not exist", stmt)
                        };
                        self.error("26000", &msg);
                        self.snap.skip = true;
                    }
                    Some(def) => {
                        self.portals.insert(portal, (def.query.clone(), Some(def)));
                        self.emit(wire::bind_complete());
                    }
                },
            },
            b'D' => match wire::decode_kind_name(m) {
                None => {
                    self.error("08P01", "invalid message format");
                    self.snap.skip = true;
                }
                Some((b'S', name)) => match self.snap.stmts.get(&name).cloned() {
                    None => {
                        self.error("26000", &format!("prepared statement \"{}\" does not exist", name));
                        self.snap.skip = true;
                    }
                    Some(def) => {
                        self.emit(wire::parameter_description(&def.types));
                        if returns_rows(&def.query) {
                            self.emit(wire::row_description(&["conn", "seq", "sql", "pad"]));
                        } else {
                            self.emit(wire::no_data());
                        }
                    }
                },
                Some((_, name)) => match self.portals.get(&name).cloned() {
                    None => {
                        self.error("34000", &format!("portal \"{}\" does not exist", name));
                        self.snap.skip = true;
                    }
                    Some((q, _)) => {
                        if returns_rows(&q) {
                            self.emit(wire::row_description(&["conn", "seq", "sql", "pad"]));
                        } else {
                            self.emit(wire::no_data());
                        }
                    }
                },
            },
            b'E' => {
                let (portal, o) = m.cstr_at(0).unwrap_or_default();
                let max_rows = m
                    .body
                    .get(o..o + 4)
                    .map(|b| i32::from_be_bytes(b.try_into().unwrap()))
                    .unwrap_or(0);
                match self.portals.get(&portal).cloned() {
                    None => {
                        self.error("34000", &format!("portal \"{}\" does not exist", portal));
                        self.snap.skip = true;
                    }
                    Some((q, def)) => {
                        let ok = self.exec(&q, b'E', def, max_rows);
                        if !ok {
                            self.snap.skip = true;
                        }
                    }
                }
            }
            b'C' => {
                if let Some((k, name)) = wire::decode_kind_name(m) {
                    if k == b'S' {
                        self.snap.stmts.remove(&name);
                    } else {
                        self.portals.remove(&name);
                    }
                }
                self.emit(wire::close_complete());
            }
            other => {
                self.error("08P01", &format!("invalid frontend message type {}", other));
                return Flow::Close;
            }
        }
        Flow::Continue
    }
}

fn strip_leading_comments(sql: &str) -> &str {
    let mut s = sql.trim_start();
    loop {
        if s.starts_with("/*") {
            match s.find("*/") {
                Some(p) => s = s[p + 2..].trim_start(),
                None => return "",
            }
        } else if s.starts_with("--") {
            match s.find('\n') {
                Some(p) => s = s[p + 1..].trim_start(),
                None => return "",
            }
        } else {
            return s;
        }
    }
}

fn returns_rows(q: &str) -> bool {
    let up = strip_leading_comments(q).to_ascii_uppercase();
    up.starts_with("SELECT") || up.starts_with("WITH") || up.starts_with("SHOW") || up.starts_with("VALUES") || up.starts_with("TABLE")
}

/// `/*rows=N size=M*/` anywhere in the statement.
fn row_opts(sql: &str) -> (usize, usize) {
    let mut rows = 1usize;
    let mut size = 0usize;
    if let Some(p) = sql.find("rows=") {
        let d: String = sql[p + 5..].chars().take_while(|c| c.is_ascii_digit()).collect();
        rows = d.parse().unwrap_or(1);
    }
    if let Some(p) = sql.find("size=") {
        let d: String = sql[p + 5..].chars().take_while(|c| c.is_ascii_digit()).collect();
        size = d.parse().unwrap_or(0);
    }
    (rows, size)
}

async fn read_exact_or_eof(s: &mut DuplexStream, n: usize) -> Option<Vec<u8>> {
    let mut buf = vec![0u8; n];
    match s.read_exact(&mut buf).await {
        Ok(_) => Some(buf),
        Err(_) => None,
    }
}

/// Ok(None) = the peer closed between two messages; Err(code) = the stream ended inside a message.
async fn read_typed_checked(s: &mut DuplexStream) -> Result<Option<Msg>, u8> {
    let mut first = [0u8; 1];
    match s.read(&mut first).await {
        Ok(0) | Err(_) => return Ok(None),
        Ok(_) => {}
    }
    let rest = match read_exact_or_eof(s, 4).await {
        Some(r) => r,
        None => return Err(first[0]),
    };
    let len = i32::from_be_bytes(rest[0..4].try_into().unwrap());
    if !(4..=(64 << 20)).contains(&len) {
        return Ok(None);
    }
    match read_exact_or_eof(s, len as usize - 4).await {
        Some(body) => Ok(Some(Msg { code: first[0], body })),
        None => Err(first[0]),
    }
}

/// Write `out` honouring gating and segmentation. Returns false if the peer is gone.
async fn deliver(net: &Shared, id: usize, addr: &str, s: &mut DuplexStream, out: Vec<u8>, cuts: Option<Vec<usize>>) -> bool {
    if out.is_empty() {
        return true;
    }
    let (gate, chunk) = {
        let n = net.lock();
        match n.servers.get(addr) {
            Some(sp) => (sp.gate.clone(), sp.chunk),
            None => (Gate::Off, 0),
        }
    };
    // segmentation
    let mut segs: Vec<Vec<u8>> = Vec::new();
    if let Some(cuts) = cuts {
        let mut last = 0;
        for c in cuts {
            if c > last && c < out.len() {
                segs.push(out[last..c].to_vec());
                last = c;
            }
        }
        segs.push(out[last..].to_vec());
    } else if gate == Gate::PerMessage {
        let (msgs, used, _) = wire::split_stream(&out);
        for m in msgs {
            segs.push(m.encode());
        }
        if used < out.len() {
            segs.push(out[used..].to_vec());
        }
    } else if chunk > 0 {
        for c in out.chunks(chunk) {
            segs.push(c.to_vec());
        }
    } else {
        segs.push(out);
    }
    let gated = gate != Gate::Off;
    let permits = net.lock().conns[id].permits.clone();
    if gated {
        net.lock().conns[id].gated_waiting += segs.len();
    }
    for seg in segs {
        if gated {
            let p = permits.acquire().await.unwrap();
            p.forget();
            net.lock().conns[id].gated_waiting -= 1;
        }
        net.lock().push(Rec::BSend { conn: id, bytes: seg.clone() });
        if s.write_all(&seg).await.is_err() {
            return false;
        }
        let _ = s.flush().await;
    }
    true
}

/// Serve one accepted connection.
pub async fn serve(net: Shared, id: usize, addr: String, mut s: DuplexStream) {
    let kill = net.lock().conns[id].kill.clone();
    tokio::select! {
        biased;
        _ = kill.notified() => {
            let mut n = net.lock();
            n.conns[id].open = false;
            n.push(Rec::BClose { conn: id, by: "server-kill".into() });
        }
        _ = serve_inner(net.clone(), id, addr, &mut s) => {}
    }
    drop(s);
}

async fn serve_inner(net: Shared, id: usize, addr: String, s: &mut DuplexStream) {
    let close = |by: &str| {
        let mut n = net.lock();
        n.conns[id].open = false;
        n.push(Rec::BClose { conn: id, by: by.to_string() });
    };
    let mode = net.lock().servers.get(&addr).map(|s| s.startup.clone()).unwrap_or(StartupMode::Normal);
    match mode {
        StartupMode::CloseAfterAccept => {
            close("server");
            return;
        }
        StartupMode::HangAfterAccept => {
            // a stopped server: the connection is accepted by the kernel and nothing answers until the
            // server runs again (startup mode set back to Normal), then the startup proceeds
            net.lock().push(Rec::Note { msg: format!("conn {} startup hangs", id) });
            loop {
                tokio::time::sleep(std::time::Duration::from_millis(100)).await;
                let m = net.lock().servers.get(&addr).map(|s| s.startup.clone()).unwrap_or(StartupMode::Normal);
                if m != StartupMode::HangAfterAccept {
                    break;
                }
            }
        }
        _ => {}
    }
    if !net.lock().servers.get(&addr).map(|s| s.reads).unwrap_or(true) {
        std::future::pending::<()>().await;
    }
    // startup packet(s)
    let params;
    loop {
        let head = match read_exact_or_eof(s, 4).await {
            Some(h) => h,
            None => {
                close("peer");
                return;
            }
        };
        let len = i32::from_be_bytes(head[..4].try_into().unwrap());
        if !(8..=10000).contains(&len) {
            close("server");
            return;
        }
        let body = match read_exact_or_eof(s, len as usize - 4).await {
            Some(b) => b,
            None => {
                close("peer");
                return;
            }
        };
        let code = i32::from_be_bytes(body[..4].try_into().unwrap());
        if code == 80877103 {
            let _ = s.write_all(b"N").await;
            continue;
        }
        if code == 80877102 {
            let pid = i32::from_be_bytes(body[4..8].try_into().unwrap());
            let key = i32::from_be_bytes(body[8..12].try_into().unwrap());
            {
                let mut n = net.lock();
                n.conns[id].is_cancel = true;
                n.push(Rec::BCancel { conn: id, server: addr.clone(), pid, key });
            }
            close("server");
            return;
        }
        params = wire::decode_startup_params(&body);
        break;
    }
    {
        let mut n = net.lock();
        for (k, v) in &params {
            match k.as_str() {
                "user" => n.conns[id].user = v.clone(),
                "database" => n.conns[id].database = v.clone(),
                "application_name" => n.conns[id].application_name = v.clone(),
                _ => {}
            }
        }
        n.push(Rec::BStartup { conn: id, params: params.clone() });
    }
    if mode == StartupMode::ErrorAtStartup {
        let _ = s.write_all(&wire::error_response("FATAL", "28000", "startup refused")).await;
        close("server");
        return;
    }
    let (pid, key) = {
        let n = net.lock();
        (n.conns[id].pid, n.conns[id].key)
    };
    let mut sess = Session {
        net: net.clone(),
        id,
        addr: addr.clone(),
        snap: Snap { status: b'I', gucs: default_gucs(), role: "none".into(), ..Default::default() },
        txn_snapshot: None,
        txn_session_sets: BTreeMap::new(),
        txn_role_before: "none".into(),
        reported: BTreeMap::new(),
        out: vec![],
        copy_rows: 0,
        copy_fail_at_done: false,
        copy_via_ext: false,
        force_flush: false,
        copy_rest: VecDeque::new(),
        portals: BTreeMap::new(),
    };
    for (k, v) in &params {
        if k == "application_name" || k == "client_encoding" || k == "DateStyle" || k == "TimeZone" {
            sess.snap.gucs.insert(canon_guc(k), v.clone());
        }
    }
    sess.emit(wire::auth_ok());
    sess.report_gucs();
    sess.emit(wire::backend_key_data(pid, key));
    sess.emit(wire::ready(b'I'));
    sess.publish();
    // startup reply is not gated
    let out = std::mem::take(&mut sess.out);
    net.lock().push(Rec::BSend { conn: id, bytes: out.clone() });
    if s.write_all(&out).await.is_err() {
        close("peer");
        return;
    }

    loop {
        while net.lock().servers.get(&addr).map(|sp| sp.pause_reads).unwrap_or(false) {
            tokio::time::sleep(std::time::Duration::from_millis(100)).await;
        }
        let m = match read_typed_checked(s).await {
            Ok(Some(m)) => m,
            Ok(None) => {
                close("peer");
                return;
            }
            Err(code) => {
                net.lock().push(Rec::Note { msg: format!("conn {} TORN-MESSAGE: the stream ended inside a '{}' message", id, code as char) });
                close("peer");
                return;
            }
        };
        // raw scripted replies
        let raw = {
            let mut n = net.lock();
            let client_req = match m.code {
                b'Q' => !is_pooler_control(&m.text()),
                b'S' => true,
                _ => false,
            };
            match n.servers.get_mut(&addr).and_then(|sp| sp.raw.as_mut()) {
                Some(r) if client_req && r.used < r.replies.len() => {
                    let i = r.used;
                    r.used += 1;
                    Some((r.replies[i].clone(), r.cuts.get(i).cloned().unwrap_or_default()))
                }
                _ => None,
            }
        };
        if let Some((bytes, cuts)) = raw {
            let mut st = sess.snap.clone();
            st.unsent = 0;
            net.lock().push(Rec::BRecv { conn: id, msg: m.clone(), st });
            // track status from the scripted Z so later control queries behave
            let (msgs, _, _) = wire::split_stream(&bytes);
            for mm in &msgs {
                if mm.code == b'Z' {
                    sess.snap.status = *mm.body.first().unwrap_or(&b'I');
                    if sess.snap.status == b'I' {
                        sess.txn_snapshot = None;
                    } else if sess.txn_snapshot.is_none() {
                        sess.txn_snapshot = Some(sess.snap.gucs.clone());
                    }
                }
                if mm.code == b'G' {
                    sess.snap.in_copy_in = true;
                }
            }
            sess.publish();
            if !deliver(&net, id, &addr, s, bytes, Some(cuts)).await {
                close("peer");
                return;
            }
            continue;
        }
        let has_raw = net.lock().servers.get(&addr).map(|sp| sp.raw.is_some()).unwrap_or(false);
        if has_raw && matches!(m.code, b'P' | b'B' | b'D' | b'E' | b'C' | b'H' | b'd' | b'c' | b'f') {
            // in raw mode the batch is answered at Sync (or CopyDone) by the script
            let mut st = sess.snap.clone();
            st.unsent = 0;
            net.lock().push(Rec::BRecv { conn: id, msg: m.clone(), st });
            if sess.snap.in_copy_in && (m.code == b'c' || m.code == b'f') {
                sess.snap.in_copy_in = false;
                let raw = {
                    let mut n = net.lock();
                    match n.servers.get_mut(&addr).and_then(|sp| sp.raw.as_mut()) {
                        Some(r) if r.used < r.replies.len() => {
                            let i = r.used;
                            r.used += 1;
                            Some((r.replies[i].clone(), r.cuts.get(i).cloned().unwrap_or_default()))
                        }
                        _ => None,
                    }
                };
                if let Some((bytes, cuts)) = raw {
                    let (msgs, _, _) = wire::split_stream(&bytes);
                    for mm in &msgs {
                        if mm.code == b'Z' {
                            sess.snap.status = *mm.body.first().unwrap_or(&b'I');
                        }
                    }
                    sess.publish();
                    if !deliver(&net, id, &addr, s, bytes, Some(cuts)).await {
                        close("peer");
                        return;
                    }
                }
            }
            continue;
        }
        let flow = sess.handle(&m);
        sess.publish();
        if let Flow::Delay(ms) = flow {
            net.lock().push(Rec::Note { msg: format!("conn {} delays its answer by {} ms", id, ms) });
            tokio::time::sleep(std::time::Duration::from_millis(ms)).await;
        }
        let flush_now = match flow {
            Flow::Close | Flow::Hang | Flow::Delay(_) => true,
            Flow::Continue => {
                matches!(m.code, b'Q' | b'S' | b'H' | b'c' | b'f')
                    || std::mem::take(&mut sess.force_flush)
                    || sess.out.ends_with(&wire::copy_in_response())
                    || sess.out.len() >= 8192
            }
        };
        if flush_now {
            let out = std::mem::take(&mut sess.out);
            sess.publish();
            if !deliver(&net, id, &addr, s, out, None).await {
                // the peer is gone: what it had already written is still ours to read (and to judge: whole
                // messages are logged, a message cut short is reported)
                loop {
                    match read_typed_checked(s).await {
                        Ok(Some(m)) => {
                            let mut st = sess.snap.clone();
                            st.unsent = 0;
                            net.lock().push(Rec::BRecv { conn: id, msg: m, st });
                        }
                        Ok(None) => break,
                        Err(code) => {
                            net.lock().push(Rec::Note { msg: format!("conn {} TORN-MESSAGE: the stream ended inside a '{}' message", id, code as char) });
                            break;
                        }
                    }
                }
                close("peer");
                return;
            }
        }
        match flow {
            Flow::Continue | Flow::Delay(_) => {}
            Flow::Close => {
                close("server");
                return;
            }
            Flow::Hang => {
                net.lock().push(Rec::Note { msg: format!("conn {} hangs", id) });
                std::future::pending::<()>().await;
            }
        }
    }
}

/// Direct-connection reference: what a PostgreSQL session (this automaton)
/// answers to the given frontend messages, with no pooler in between.
/// Returns the backend messages in order.
pub fn reference_replies(msgs: &[Msg], application_name: &str) -> Vec<Msg> {
    let net: Shared = Arc::new(Mutex::new(Net::new()));
    {
        let mut n = net.lock();
        n.servers.insert("ref:0".into(), ServerSpec::new("ref:0", "ref"));
        n.conns.push(ConnInfo {
            id: 0,
            server: "ref:0".into(),
            label: "ref".into(),
            pid: 1,
            key: 1,
            open: true,
            is_cancel: false,
            snap: Default::default(),
            gated_waiting: 0,
            permits: Arc::new(tokio::sync::Semaphore::new(0)),
            msgs_in: 0,
            user: String::new(),
            database: String::new(),
            application_name: application_name.to_string(),
            kill: Arc::new(tokio::sync::Notify::new()),
        });
    }
    let mut sess = Session {
        net: net.clone(),
        id: 0,
        addr: "ref:0".into(),
        snap: Snap { status: b'I', gucs: default_gucs(), role: "none".into(), ..Default::default() },
        txn_snapshot: None,
        txn_session_sets: BTreeMap::new(),
        txn_role_before: "none".into(),
        reported: BTreeMap::new(),
        out: vec![],
        copy_rows: 0,
        copy_fail_at_done: false,
        copy_via_ext: false,
        force_flush: false,
        copy_rest: VecDeque::new(),
        portals: BTreeMap::new(),
    };
    sess.snap.gucs.insert("application_name".into(), application_name.to_string());
    // mark current values as already reported (startup did that)
    for k in REPORTED {
        let cur = sess.snap.gucs.get(*k).cloned().unwrap_or_default();
        sess.reported.insert(k.to_string(), cur);
    }
    let mut out = Vec::new();
    for m in msgs {
        match sess.handle(m) {
            Flow::Continue | Flow::Delay(_) => {}
            _ => break,
        }
    }
    let (ms, _, _) = wire::split_stream(&sess.out);
    out.extend(ms);
    out
}
