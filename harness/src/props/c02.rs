//! C02 — a server connection is clean whenever it changes hands.

use super::common::*;
use super::SimCheck;
use crate::cfg::{env, Cfg, PoolCfg, Script};
use crate::explore::{Limits, Violation};
use crate::mockpg::{Fault, FaultKind, Gate, Matcher, Rec};
use crate::wire;
use crate::world::{CloseKind, Cond, Opts, Outcome, Scenario, Step};

#[derive(Clone)]
pub struct Unit {
    pub bytes: Vec<u8>,
    pub label: String,
    /// 0 = nothing to wait for, b'Z', b'G'
    pub wait: u8,
}

fn u(bytes: Vec<u8>, label: &str, wait: u8) -> Unit {
    Unit { bytes, label: label.to_string(), wait }
}

fn uq(sql: &str) -> Unit {
    u(wire::query(sql), &format!("Q {}", sql), b'Z')
}

pub const PROGRAMS: &[&str] = &[
    "opentxn", "failedtxn", "set", "setrole", "prepare", "namedparse", "halfbatch", "copyin", "setext", "named-in-txn", "hangstmt", "hangstmt-auto", "slowstmt-auto",
    "setrole-then-txn", "set-then-txn", "prepare-in-failedtxn", "named-in-failedtxn", "extcopy", "extcopy-fail", "copyin-batch",
];

/// (units, natural ending units)
pub fn victim_units(prog: &str) -> (Vec<Unit>, Vec<Unit>) {
    let t = |j: usize, k: usize| tag(0, j, k);
    if prog.starts_with("gen:") {
        // generated extended-protocol programs (C08's generator): each batch is one unit ending in Sync
        let units = super::c08::gen_batches(0, prog).into_iter().map(|(b, l)| u(b, &l, b'Z')).collect();
        return (units, vec![]);
    }
    match prog {
        "opentxn" => (
            vec![uq(&format!("BEGIN /*{}*/", t(0, 0))), uq(&format!("SELECT 1 /*{}*/", t(0, 1)))],
            vec![uq(&format!("COMMIT /*{}*/", t(0, 2)))],
        ),
        "failedtxn" => (
            vec![uq(&format!("BEGIN /*{}*/", t(0, 0))), uq(&format!("SELECT ERR! /*{}*/", t(0, 1)))],
            vec![uq(&format!("ROLLBACK /*{}*/", t(0, 2)))],
        ),
        "set" => (vec![uq(&format!("SET statement_timeout TO 4242 /*{}*/", t(0, 0)))], vec![]),
        "setrole" => (vec![uq(&format!("SET ROLE bob /*{}*/", t(0, 0)))], vec![]),
        "prepare" => (vec![uq(&format!("PREPARE p1 AS SELECT 1 /*{}*/", t(0, 0)))], vec![]),
        "namedparse" => (
            vec![
                u(wire::parse("s1", &format!("SELECT 1 /*{}*/", t(0, 0)), &[]), "P s1", 0),
                u(wire::sync(), "S", b'Z'),
            ],
            vec![],
        ),
        "halfbatch" => (
            vec![
                u(wire::parse("", &format!("SELECT 1 /*{}*/", t(0, 0)), &[]), "P", 0),
                u(wire::bind("", "", &[], &[Some(t(0, 1).into_bytes())], &[]), "B", 0),
                u(wire::execute("", 0), "E", 0),
            ],
            vec![u(wire::sync(), "S", b'Z')],
        ),
        "copyin" => (
            vec![
                u(wire::query(&format!("COPY t FROM STDIN /*{}*/", t(0, 0))), "Q COPY FROM STDIN", b'G'),
                u(wire::copy_data(format!("r1 {}\n", t(0, 1)).as_bytes()), "d", 0),
                u(wire::copy_data(format!("r2 {}\n", t(0, 2)).as_bytes()), "d", 0),
            ],
            vec![u(wire::copy_done(), "c", b'Z')],
        ),
        // COPY FROM STDIN over the extended protocol: the ReadyForQuery comes with the Sync after CopyDone
        "extcopy" | "extcopy-fail" => {
            let mut b = wire::parse("", &format!("COPY t FROM STDIN /*{}*/", t(0, 0)), &[]);
            b.extend(wire::bind("", "", &[], &[], &[]));
            b.extend(wire::execute("", 0));
            b.extend(wire::sync());
            (
                vec![
                    u(b, "P B E S (COPY)", b'G'),
                    u(wire::copy_data(format!("r1 {}\n", t(0, 1)).as_bytes()), "d", 0),
                    if prog == "extcopy" { u(wire::copy_done(), "c", b'C') } else { u(wire::copy_fail("no"), "f", b'E') },
                ],
                vec![u(wire::sync(), "S", b'Z')],
            )
        }
        // an extended-protocol batch in the middle of COPY IN, binding a statement the client prepared
        // earlier (with a statement cache of size 1 it is no longer on the server and the pooler prepares it
        // out of band, which aborts the COPY and leaves a second ReadyForQuery behind)
        "copyin-batch" => {
            let mut p1 = wire::parse("s1", &format!("SELECT 1 /*{}*/", t(0, 0)), &[]);
            p1.extend(wire::sync());
            let mut p2 = wire::parse("s2", &format!("SELECT 2 /*{}*/", t(0, 1)), &[]);
            p2.extend(wire::sync());
            let mut b = wire::bind("", "s1", &[], &[], &[]);
            b.extend(wire::execute("", 0));
            b.extend(wire::sync());
            (
                vec![
                    u(p1, "P(s1) S", b'Z'),
                    u(p2, "P(s2) S", b'Z'),
                    u(wire::query(&format!("COPY t FROM STDIN /*{}*/", t(1, 0))), "Q COPY FROM STDIN", b'G'),
                    u(wire::copy_data(format!("r1 {}\n", t(1, 1)).as_bytes()), "d", 0),
                    u(b, "B(s1) E S (during COPY)", b'Z'),
                ],
                vec![],
            )
        }
        "setext" => {
            // SET through the extended protocol, outside a transaction
            let mut b = wire::parse("", &format!("SET work_mem TO '77MB' /*{}*/", t(0, 0)), &[]);
            b.extend(wire::bind("", "", &[], &[], &[]));
            b.extend(wire::execute("", 0));
            (vec![u(b, "P B E (SET)", 0), u(wire::sync(), "S", b'Z')], vec![])
        }
        "named-in-txn" => (
            vec![
                uq(&format!("BEGIN /*{}*/", t(0, 0))),
                u(wire::parse("s2", &format!("SELECT 2 /*{}*/", t(0, 1)), &[]), "P s2", 0),
                u(wire::sync(), "S", b'Z'),
            ],
            vec![uq(&format!("COMMIT /*{}*/", t(0, 2)))],
        ),
        "setrole-then-txn" => (
            vec![
                uq(&format!("SET ROLE bob /*{}*/", t(0, 0))),
                uq(&format!("BEGIN /*{}*/", t(1, 0))),
                uq(&format!("SELECT 1 /*{}*/", t(1, 1))),
            ],
            vec![uq(&format!("COMMIT /*{}*/", t(1, 2)))],
        ),
        "set-then-txn" => (
            vec![
                uq(&format!("SET statement_timeout TO 4242 /*{}*/", t(0, 0))),
                uq(&format!("BEGIN /*{}*/", t(1, 0))),
                uq(&format!("SELECT 1 /*{}*/", t(1, 1))),
            ],
            vec![uq(&format!("COMMIT /*{}*/", t(1, 2)))],
        ),
        "prepare-in-failedtxn" => (
            vec![
                uq(&format!("BEGIN /*{}*/", t(0, 0))),
                uq(&format!("PREPARE p2 AS SELECT 2 /*{}*/", t(0, 1))),
                uq(&format!("SELECT ERR! /*{}*/", t(0, 2))),
            ],
            vec![uq(&format!("ROLLBACK /*{}*/", t(0, 3)))],
        ),
        "named-in-failedtxn" => (
            vec![
                uq(&format!("BEGIN /*{}*/", t(0, 0))),
                u(wire::parse("s3", &format!("SELECT 3 /*{}*/", t(0, 1)), &[]), "P s3", 0),
                u(wire::sync(), "S", b'Z'),
                uq(&format!("SELECT ERR! /*{}*/", t(0, 2))),
            ],
            vec![uq(&format!("ROLLBACK /*{}*/", t(0, 3)))],
        ),
        // the same outside a transaction block: never answered / answered after the statement timeout
        "hangstmt-auto" => (vec![u(wire::query(&format!("SELECT HANG! /*{}*/", t(0, 0))), "Q SELECT HANG!", 0)], vec![]),
        "slowstmt-auto" => (vec![u(wire::query(&format!("SELECT SLOW! /*{}*/", t(0, 0))), "Q SELECT SLOW!", 0)], vec![]),
        "hangstmt" => (
            vec![uq(&format!("BEGIN /*{}*/", t(0, 0))), u(wire::query(&format!("SELECT HANG! /*{}*/", t(0, 1))), "Q SELECT HANG!", 0)],
            vec![],
        ),
        _ => panic!("unknown program {}", prog),
    }
}

pub const ENDINGS: &[&str] = &[
    "natural", "terminate", "harddrop", "fin", "bad-close", "bad-describe", "bind-unknown", "short-length", "unknown-type", "idle-timeout", "stmt-timeout", "hc-timeout",
];

fn is_hang(prog: &str) -> bool {
    matches!(prog, "hangstmt" | "hangstmt-auto" | "slowstmt-auto")
}

/// Build the scenario; `cut` = (unit index, byte offset). offset 0 = at the message boundary before that unit.
pub fn scenario(mode: &str, cache: usize, prog: &str, cut: (usize, usize), ending: &str, second_victim: Option<&str>) -> Option<Scenario> {
    let (units, natural) = victim_units(prog);
    let (k, off) = cut;
    if k > units.len() || (k == units.len() && off != 0) {
        return None;
    }
    let at_boundary = off == 0;
    let at_end = k == units.len();
    match ending {
        "natural" if !at_end => return None,
        "hc-timeout" if !at_end || second_victim.is_none() => return None,
        "terminate" | "bad-close" | "bad-describe" | "bind-unknown" | "short-length" | "unknown-type" | "idle-timeout" if !at_boundary => return None,
        "stmt-timeout" if !is_hang(prog) || !at_end => return None,
        _ => {}
    }
    if is_hang(prog) && !(ending == "stmt-timeout" || ((ending == "harddrop" || ending == "fin") && at_end)) {
        return None;
    }
    if ending == "idle-timeout" {
        // only meaningful while the server is held waiting for the client
        if !(prog.contains("txn") || prog == "copyin" || prog == "halfbatch") || k == 0 {
            return None;
        }
    }
    if ending == "bind-unknown" && cache == 0 {
        return None;
    }
    let mut pool = PoolCfg::simple("db", mode, 1, 1, 0);
    pool.extra = format!("prepared_statements_cache_size = {}\n", cache);
    if ending == "stmt-timeout" || is_hang(prog) {
        pool.users[0].extra = "statement_timeout = 2000\n".into();
    }
    let mut cfg = Cfg::one(pool);
    if ending == "idle-timeout" {
        cfg.idle_in_txn_timeout = 3000;
    }
    let mut servers = cfg.servers();
    if is_hang(prog) {
        servers[0].faults.push(Fault { on: Matcher::Contains("HANG!".into()), kind: FaultKind::Hang, once: true });
        // answered one second after the pooler's statement timeout (2000 ms) has given up on it
        servers[0].faults.push(Fault { on: Matcher::Contains("SLOW!".into()), kind: FaultKind::Delay(3000), once: true });
    }

    let mut s = Script::new("victim").connect("alice", "db", Some("alicepw"));
    let mut gs = 0usize;
    for (i, un) in units.iter().enumerate() {
        if i < k {
            s = s.send(un.bytes.clone(), &un.label);
            match un.wait {
                b'Z' => s = s.expect_z(),
                b'G' => {
                    gs += 1;
                    s = s.wait(Cond::CodeOrClosed(b'G', gs));
                }
                _ => {}
            }
        } else if i == k && off > 0 {
            if off >= un.bytes.len() {
                return None;
            }
            s = s.send(un.bytes[..off].to_vec(), &format!("{} [first {} of {} bytes]", un.label, off, un.bytes.len()));
        }
    }
    let mut env_steps: Vec<Step> = vec![];
    match ending {
        "natural" => {
            for un in &natural {
                s = s.send(un.bytes.clone(), &un.label);
                if un.wait == b'Z' {
                    s = s.expect_z();
                }
            }
            if mode == "session" {
                s = s.send(wire::terminate(), "X");
            }
        }
        "hc-timeout" => {
            // the victim finishes and leaves; the connection then sits idle past healthcheck_delay and the
            // server answers the next checkout's health check only after healthcheck_timeout has given up on it
            for un in &natural {
                s = s.send(un.bytes.clone(), &un.label);
                if un.wait == b'Z' {
                    s = s.expect_z();
                }
            }
            s = s.send(wire::terminate(), "X");
            let addr = servers[0].addr.clone();
            env_steps.push(Step::Wait(Cond::ActorsDone(vec![0])));
            env_steps.push(Step::Call(
                "health check answered late".into(),
                std::sync::Arc::new(move |n| n.servers.get_mut(&addr).unwrap().faults.push(Fault { on: Matcher::HealthCheck, kind: FaultKind::Delay(1500), once: true })),
            ));
            env_steps.push(Step::Advance(31_000));
        }
        "terminate" => s = s.send(wire::terminate(), "X"),
        "harddrop" => s = s.close(CloseKind::HardDrop),
        "fin" => s = s.close(CloseKind::Fin),
        "bad-close" => s = s.send(wire::msg(b'C', b"S"), "C [no name, no NUL]").send(wire::sync(), "S"),
        "bad-describe" => s = s.send(wire::msg(b'D', b"S"), "D [no name, no NUL]").send(wire::sync(), "S"),
        "bind-unknown" => s = s.send(wire::bind("", "nope", &[], &[], &[]), "B [unknown statement]").send(wire::sync(), "S"),
        "short-length" => s = s.send(vec![b'Q', 0, 0, 0, 3], "Q [length 3]"),
        "unknown-type" => s = s.send(wire::msg(b'z', b""), "z [unknown type]").close(CloseKind::HardDrop),
        "idle-timeout" => {
            env_steps.push(Step::Wait(Cond::ActorsDone(vec![0])));
            env_steps.push(Step::Advance(3500));
        }
        "stmt-timeout" => {
            env_steps.push(Step::Wait(Cond::ActorsDone(vec![0])));
            env_steps.push(Step::Advance(2500));
        }
        _ => return None,
    }
    let victim = s.actor();
    let mut actors = vec![victim, env("env", env_steps)];
    let mut wait_for = vec![0usize, 1];
    if let Some(p2) = second_victim {
        // a second victim (client index 2) runs a complete program between victim and observer
        let (u2, n2) = victim_units(p2);
        let mut s2 = Script::new("victim2").wait(Cond::ActorsDone(vec![0, 1])).connect("alice", "db", Some("alicepw"));
        for un in u2.iter().chain(n2.iter()) {
            let bytes = retag(&un.bytes, 0, 2);
            s2 = s2.send(bytes, &un.label);
            if un.wait == b'Z' {
                s2 = s2.expect_z();
            } else if un.wait == b'G' {
                s2 = s2.wait(Cond::CodeOrClosed(b'G', 1));
            }
        }
        s2 = s2.close(CloseKind::HardDrop);
        actors.push(s2.actor());
        wait_for.push(2);
    }
    // observer is always the last actor; its tags use its own actor index
    let oi = actors.len();
    let mut batch = wire::parse("s1", &format!("SELECT 'obs2' /*{}*/", tag(oi, 1, 0)), &[]);
    batch.extend(wire::bind("", "s1", &[], &[Some(tag(oi, 1, 1).into_bytes())], &[]));
    batch.extend(wire::execute("", 0));
    batch.extend(wire::sync());
    let obs = Script::new("observer")
        .wait(Cond::ActorsDone(wait_for))
        .connect("alice", "db", Some("alicepw"))
        .q(&format!("SELECT 'obs' /*{}*/", tag(oi, 0, 0)))
        .send_z(batch, "P(s1) B E S")
        .q(&format!("SELECT 'obs3' /*{}*/", tag(oi, 2, 0)))
        .terminate();
    actors.push(obs.actor());
    Some(Scenario {
        name: format!(
            "C02 mode={} cache={} prog={} cut={}.{} end={}{}",
            mode,
            cache,
            prog,
            k,
            off,
            ending,
            second_victim.map(|p| format!(" then={}", p)).unwrap_or_default()
        ),
        toml: cfg.toml(),
        alt_tomls: vec![],
        servers,
        actors,
        opts: Opts::default(),
        meta: serde_json::Value::Null,
    })
}

/// Replace tag client index `from` by `to` in raw bytes (same length: single digits).
fn retag(bytes: &[u8], from: usize, to: usize) -> Vec<u8> {
    let f = format!("c{}.t", from).into_bytes();
    let t = format!("c{}.t", to).into_bytes();
    let mut out = bytes.to_vec();
    let mut i = 0;
    while i + f.len() <= out.len() {
        if out[i..i + f.len()] == f[..] {
            out[i..i + f.len()].copy_from_slice(&t);
            i += f.len();
        } else {
            i += 1;
        }
    }
    out
}

/// Cleanliness predicate shared with C11: judge the session state `st` a new
/// client finds on a connection somebody else used before.
pub fn dirty_reasons(st: &crate::mockpg::Snap, caching: bool) -> Vec<String> {
    let mut r = Vec::new();
    if st.status != b'I' {
        r.push(format!("status={}", st.status as char));
    }
    if st.in_copy_in {
        r.push("copy-in".into());
    }
    if st.unsent > 0 {
        r.push("unsent-reply".into());
    }
    if st.pending_sync {
        r.push("pending-sync".into());
    }
    if st.skip {
        r.push("discarding-until-sync".into());
    }
    if st.role != "none" {
        r.push("role".into());
    }
    for (k, _) in st.dirty_gucs() {
        if k != "application_name" {
            r.push(format!("guc:{}", k));
        }
    }
    for (name, def) in &st.stmts {
        if name.is_empty() {
            continue;
        }
        if def.via_sql {
            r.push("sql-prepared".into());
        } else if !(caching && name.starts_with("PGCAT_")) {
            r.push("named-statement".into());
        }
    }
    r
}

fn scenario_field<'a>(name: &'a str, key: &str) -> &'a str {
    name.split_whitespace().find_map(|w| w.strip_prefix(key)).unwrap_or("")
}

pub fn oracle(sc: &Scenario, out: &Outcome) -> Vec<Violation> {
    let log = &out.log;
    let mut vs = Vec::new();
    let caching = scenario_field(&sc.name, "cache=") != "0";
    let prog = scenario_field(&sc.name, "prog=");
    let ending = scenario_field(&sc.name, "end=");
    let oi = sc.actors.len() - 1;
    let mode = scenario_field(&sc.name, "mode=");
    let ctx = format!("prog={}:end={}:cache={}{}", prog, ending, if caching { "on" } else { "off" }, if mode == "session" { ":session" } else { "" });
    // cleanup_server_connections = false: the operator gave up resetting session state at check-in, not the
    // rule that a connection left in a transaction, in COPY or with unread data is never handed on
    let cleanup_off = sc.name.contains("cleanup=off");
    let ctx = if cleanup_off { format!("{}:cleanup=off", ctx) } else { ctx };

    // hand-over points: first message of a client on a connection last used by another client
    for conn in conn_ids(log) {
        let mut last_user: Option<usize> = None;
        for (seq, msg, st) in brecv_of(log, conn) {
            if is_control(msg) {
                continue;
            }
            let t = match msg_tag(msg) {
                Some(t) => t,
                None => continue,
            };
            if let Some(prev) = last_user {
                if prev != t.c {
                    let mut reasons = dirty_reasons(st, caching);
                    if cleanup_off {
                        reasons.retain(|x| !(x.starts_with("guc:") || x == "role" || x == "named-statement" || x == "sql-prepared"));
                    }
                    if !reasons.is_empty() {
                        vs.push(v(
                            "C02.dirty-handover",
                            format!("C02.dirty:{}:{}", reasons.join("+"), ctx),
                            format!(
                                "conn {} handed from client {} to client {} at seq {} with session state not clean: {:?} (first message {})",
                                conn, prev, t.c, seq, reasons, describe(msg)
                            ),
                        ));
                    }
                }
            }
            last_user = Some(t.c);
        }
    }
    // nothing of another client's may reach the observer; its valid program must not fail on the server
    for (seq, m) in client_msgs(log, oi) {
        if let Some(t) = msg_tag(m) {
            if t.c != oi {
                vs.push(v(
                    "C02.leftover-reply",
                    format!("C02.leftover-reply:{}:{}", m.code as char, ctx),
                    format!("observer received at seq {} data of client {}: {}", seq, t.c, describe(m)),
                ));
            }
        }
        if m.code == b'E' {
            let code = m.err_field(b'C').unwrap_or_default();
            let text = m.err_field(b'M').unwrap_or_default();
            if code != "58000" {
                vs.push(v(
                    "C02.observer-error",
                    format!("C02.observer-error:{}:{}", code, ctx),
                    format!("observer's valid program got a server error at seq {}: {} {}", seq, code, text),
                ));
            }
        }
    }
    // observer must complete (a connection that cannot be cleaned is closed, not wedged)
    if out.blocked {
        vs.push(v(
            "C02.blocked",
            format!("C02.blocked:{}", ctx),
            format!("run did not complete: {}", blocked_note(log).unwrap_or_default()),
        ));
    } else {
        let got: Vec<String> = client_msgs(log, oi)
            .iter()
            .filter(|(_, m)| m.code == b'D')
            .filter_map(|(_, m)| m.row_cols().get(2).cloned().flatten())
            .map(|b| String::from_utf8_lossy(&b).to_string())
            .collect();
        let perr = client_msgs(log, oi).iter().any(|(_, m)| m.code == b'E' && m.err_field(b'C').as_deref() == Some("58000"));
        if got.len() != 3 && !perr {
            vs.push(v(
                "C02.observer-incomplete",
                format!("C02.observer-incomplete:{}", ctx),
                format!("observer expected 3 result rows, got {:?}", got),
            ));
        }
    }
    let _ = Rec::Note { msg: String::new() };
    vs
}

pub fn build(tier: &str) -> SimCheck {
    let thorough = tier == "thorough";
    let mut scenarios = Vec::new();
    for cache in [0usize, 8] {
        for prog in PROGRAMS {
            let (units, _) = victim_units(prog);
            for k in 0..=units.len() {
                let len = units.get(k).map(|u| u.bytes.len()).unwrap_or(0);
                let mut offs: Vec<usize> = vec![0];
                if len > 0 {
                    if thorough || ["opentxn", "copyin", "halfbatch", "namedparse"].contains(prog) {
                        offs.extend(1..len);
                    } else {
                        for o in [1usize, 4, 5, 6, len / 2, len - 1] {
                            if o > 0 && o < len && !offs.contains(&o) {
                                offs.push(o);
                            }
                        }
                    }
                }
                for off in offs {
                    for ending in ENDINGS {
                        if let Some(sc) = scenario("transaction", cache, prog, (k, off), ending, None) {
                            scenarios.push(sc);
                        }
                        if off == 0 || thorough {
                            if let Some(sc) = scenario("session", cache, prog, (k, off), ending, None) {
                                scenarios.push(sc);
                            }
                        }
                    }
                }
            }
        }
    }
    // second order: a complete second victim between the cut victim and the observer
    let seconds: &[&str] = if thorough { &["set", "prepare", "namedparse", "opentxn", "copyin"] } else { &["set", "namedparse"] };
    for cache in [0usize, 8] {
        for prog in ["opentxn", "copyin", "halfbatch", "failedtxn"] {
            let (units, _) = victim_units(prog);
            for k in 1..=units.len() {
                for ending in ["harddrop", "fin", "bad-close", "terminate"] {
                    for p2 in seconds {
                        if let Some(sc) = scenario("transaction", cache, prog, (k, 0), ending, Some(p2)) {
                            scenarios.push(sc);
                        }
                    }
                }
            }
        }
    }
    // generated extended-protocol victims (named statements created, replaced and closed in every order),
    // leaving after the complete program by Terminate or hard drop
    for g in super::c08::gen_programs(if thorough { 3 } else { 2 }) {
        let (units, _) = victim_units(&g);
        for cache in [0usize, 8] {
            for ending in ["terminate", "harddrop"] {
                if let Some(sc) = scenario("transaction", cache, &g, (units.len(), 0), ending, None) {
                    scenarios.push(sc);
                }
                if thorough {
                    if let Some(sc) = scenario("session", cache, &g, (units.len(), 0), ending, None) {
                        scenarios.push(sc);
                    }
                }
            }
        }
    }
    // a health check that times out on a slow (not dead) server, between the victim and the observer
    for cache in [0usize, 8] {
        for prog in ["set", "opentxn", "prepare", "namedparse"] {
            let (units, _) = victim_units(prog);
            for mid in ["set", "opentxn"] {
                if let Some(sc) = scenario("transaction", cache, prog, (units.len(), 0), "hc-timeout", Some(mid)) {
                    scenarios.push(sc);
                }
            }
        }
    }
    // a statement cache of one entry: the statement bound during the COPY has been evicted from the server
    {
        let (units, _) = victim_units("copyin-batch");
        for k in 3..=units.len() {
            for ending in ENDINGS {
                if let Some(sc) = scenario("transaction", 1, "copyin-batch", (k, 0), ending, None) {
                    scenarios.push(sc);
                }
            }
        }
    }
    // cleanup_server_connections = false
    for cache in [0usize, 8] {
        for prog in ["opentxn", "copyin", "halfbatch", "failedtxn", "set"] {
            let (units, _) = victim_units(prog);
            for k in 1..=units.len() {
                for ending in ENDINGS {
                    if let Some(mut sc) = scenario("transaction", cache, prog, (k, 0), ending, None) {
                        sc.toml = sc.toml.replacen("[pools.db]\n", "[pools.db]\ncleanup_server_connections = false\n", 1);
                        assert!(sc.toml.contains("cleanup_server_connections = false"));
                        sc.name = format!("{} cleanup=off", sc.name);
                        scenarios.push(sc);
                    }
                }
            }
        }
    }
    scenarios.extend(midreply_scenarios(thorough));
    SimCheck {
        scenarios,
        oracle: Box::new(oracle),
        bound: 1,
        limits: Limits { max_wall_s: if thorough { 1500.0 } else { 150.0 }, ..Default::default() },
        rule: "scenario = statement cache on/off x victim program x cut point (every message boundary; every byte offset inside the messages of 4 programs in quick, of all programs in thorough) x ending (natural, Terminate, hard drop, FIN, 5 malformed/invalid messages, idle-in-transaction timeout, statement timeout, a health check timing out on a slow server before the next checkout), then an observer checks out with pool_size=1; the transaction / COPY / batch victims also with cleanup_server_connections = false (session state then stays by configuration, open transactions and unread data still must not); plus every generated extended-protocol batch program of C08 as victim (leaving by Terminate / hard drop); plus mid-reply disconnects at every backend message boundary (gated delivery, 1 deviation); distinct = distinct end-to-end histories".into(),
        assumptions: vec![
            "the reference backend's own session state at the observer's first message defines 'clean'".into(),
            "state created inside a transaction block is out of the property's scope and not judged".into(),
        ],
    }
}

/// Victim disconnects while a (large or COPY OUT) reply is being streamed.
fn midreply_scenarios(thorough: bool) -> Vec<Scenario> {
    let mut out = Vec::new();
    for cache in [0usize, 8] {
        for (prog, sql) in [
            ("bigreply", format!("SELECT big /*{} rows=4 size=3000*/", tag(0, 0, 0))),
            ("copyout", format!("COPY t TO STDOUT /*{} rows=4 size=3000*/", tag(0, 0, 0))),
            ("bigreply-in-txn", format!("BEGIN; SELECT big /*{} rows=4 size=3000*/", tag(0, 0, 0))),
        ] {
            for kind in [CloseKind::HardDrop, CloseKind::Fin] {
                if !thorough && prog == "bigreply-in-txn" && kind == CloseKind::Fin {
                    continue;
                }
                let mut pool = PoolCfg::simple("db", "transaction", 1, 1, 0);
                pool.extra = format!("prepared_statements_cache_size = {}\n", cache);
                let cfg = Cfg::one(pool);
                let mut servers = cfg.servers();
                servers[0].gate = Gate::PerMessage;
                let victim = Script::new("victim")
                    .connect("alice", "db", Some("alicepw"))
                    .send(wire::query(&sql), &format!("Q {}", sql))
                    .close(kind.clone())
                    .actor();
                let mut batch = wire::parse("s1", &format!("SELECT 'obs2' /*{}*/", tag(2, 1, 0)), &[]);
                batch.extend(wire::bind("", "s1", &[], &[Some(tag(2, 1, 1).into_bytes())], &[]));
                batch.extend(wire::execute("", 0));
                batch.extend(wire::sync());
                let obs = Script::new("observer")
                    .wait(Cond::ActorsDone(vec![0]))
                    .connect("alice", "db", Some("alicepw"))
                    .q(&format!("SELECT 'obs' /*{}*/", tag(2, 0, 0)))
                    .send_z(batch, "P(s1) B E S")
                    .q(&format!("SELECT 'obs3' /*{}*/", tag(2, 2, 0)))
                    .terminate()
                    .actor();
                out.push(Scenario {
                    name: format!("C02 mode=transaction cache={} prog={} cut=midreply end={:?}", cache, prog, kind).to_lowercase().replace("c02", "C02"),
                    toml: cfg.toml(),
                    alt_tomls: vec![],
                    servers,
                    actors: vec![victim, env("env", vec![]), obs],
                    opts: Opts::default(),
                    meta: serde_json::Value::Null,
                });
            }
        }
    }
    out
}
