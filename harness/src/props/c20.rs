//! C20 — mirroring never affects the primary path.

use super::c03::compare_with_reference;
use super::common::*;
use super::SimCheck;
use crate::cfg::{env, Cfg, PoolCfg, Script};
use crate::explore::{Limits, Violation};
use crate::mockpg::{Accept, Fault, FaultKind, Matcher, Rec, StartupMode};
use crate::wire::{self, Msg};
use crate::world::{Cond, Opts, Outcome, Scenario, Step};
use std::sync::Arc;

pub const LAYOUTS: &[&str] = &["one-on-0", "one-on-1", "two-on-0", "one-each"];
pub const BEHAVIOURS: &[&str] = &["healthy", "down", "close-after-accept", "hang-on-connect", "hang-after-accept", "stop-reading", "close-mid-stream", "errors", "slow"];

fn mirrors_of(layout: &str) -> Vec<(String, u16, usize)> {
    match layout {
        "one-on-0" => vec![("pg-m0".into(), 5432, 0)],
        "one-on-1" => vec![("pg-m1".into(), 5432, 1)],
        "two-on-0" => vec![("pg-m0".into(), 5432, 0), ("pg-m0b".into(), 5432, 0)],
        "one-each" => vec![("pg-m0".into(), 5432, 0), ("pg-m1".into(), 5432, 1)],
        _ => panic!("layout"),
    }
}

fn apply_behaviour(n: &mut crate::mockpg::Net, addr: &str, b: &str) {
    let s = n.servers.get_mut(addr).unwrap();
    s.accept = Accept::Up;
    s.startup = StartupMode::Normal;
    s.faults.clear();
    s.reads = true;
    match b {
        "healthy" => {}
        "down" => s.accept = Accept::Refuse,
        "close-after-accept" => s.startup = StartupMode::CloseAfterAccept,
        "hang-on-connect" => s.accept = Accept::Hang,
        "hang-after-accept" => s.startup = StartupMode::HangAfterAccept,
        "stop-reading" => s.reads = false,
        "close-mid-stream" => s.faults.push(Fault { on: Matcher::Contains("t2.s0".into()), kind: FaultKind::Close, once: false }),
        "errors" => s.faults.push(Fault { on: Matcher::Any, kind: FaultKind::Error, once: false }),
        "slow" => s.faults.push(Fault { on: Matcher::Any, kind: FaultKind::Delay(700), once: false }),
        _ => panic!("behaviour"),
    }
}

fn client_program(requests: usize) -> Script {
    let mut s = Script::new("c0").connect("alice", "db", Some("alicepw"));
    for j in 0..requests {
        // read/write splitting sends writes to the primary (server 0) and reads to the replica (server 1)
        match j % 5 {
            0 => {
                s = s.q(&format!("INSERT INTO t VALUES ({}) /*{}*/", j, tag(0, j, 0)));
            }
            2 => {
                s = s.q(&format!("UPDATE t SET a = {} /*{}*/", j, tag(0, j, 0)));
            }
            1 => {
                let mut b = wire::parse("", &format!("SELECT 'ext' /*{}*/", tag(0, j, 0)), &[]);
                b.extend(wire::bind("", "", &[], &[Some(tag(0, j, 1).into_bytes())], &[]));
                b.extend(wire::execute("", 0));
                b.extend(wire::sync());
                s = s.send_z(b, "P B E S");
            }
            3 => {
                s = s
                    .send(wire::query(&format!("COPY t FROM STDIN /*{}*/", tag(0, j, 0))), "Q COPY")
                    .wait(Cond::CodeOrClosed(b'G', 1 + j / 5))
                    .send(wire::copy_data(format!("row {}\n", tag(0, j, 1)).as_bytes()), "d")
                    .send_z(wire::copy_done(), "c");
            }
            4 => {
                s = s.q(&format!("SELECT big /*{} rows=3 size=4000*/", tag(0, j, 0)));
            }
            _ => {
                s = s.q(&format!("SELECT 1 /*{}*/", tag(0, j, 0)));
            }
        }
    }
    s.terminate()
}

pub fn scenario(layout: &str, behaviour: &str, when: &str, requests: usize) -> Scenario {
    let mut pool = PoolCfg::simple("db", "transaction", 1, 1, 1);
    pool.extra = "query_parser_enabled = true\nquery_parser_read_write_splitting = true\nprimary_reads_enabled = false\n".into();
    pool.shards[0].mirrors = mirrors_of(layout);
    let cfg = Cfg::one(pool);
    let mut servers = cfg.servers();
    let mirror_addrs: Vec<String> = servers.iter().filter(|s| s.label.contains("mirror")).map(|s| s.addr.clone()).collect();
    let mut env_steps: Vec<Step> = Vec::new();
    if when == "from-start" {
        // the first listed mirror misbehaves from the beginning (the second, if any, stays healthy)
        let a = mirror_addrs[0].clone();
        let mut tmp = crate::mockpg::Net::new();
        for s in &servers {
            tmp.servers.insert(s.addr.clone(), s.clone());
        }
        apply_behaviour(&mut tmp, &a, behaviour);
        servers = tmp.servers.values().cloned().collect();
    } else {
        let a = mirror_addrs[0].clone();
        let b = behaviour.to_string();
        env_steps.push(Step::Call(format!("mirror {} becomes {}", a, b), Arc::new(move |n| apply_behaviour(n, &a, &b))));
        if when == "toggle-and-recover" {
            let a = mirror_addrs[0].clone();
            env_steps.push(Step::Call(format!("mirror {} recovers", a), Arc::new(move |n| apply_behaviour(n, &a, "healthy"))));
        }
    }
    Scenario {
        name: format!("C20 layout={} mirror={} when={} requests={}", layout, behaviour, when, requests),
        toml: cfg.toml(),
        alt_tomls: vec![],
        servers,
        actors: vec![client_program(requests).actor(), env("mirror-env", env_steps)],
        opts: Opts { max_events: 900, ..Opts::default() },
        meta: serde_json::json!({"layout": layout}),
    }
}

/// The prewarmer plugin makes every new server connection run statements of the pooler's own: those are
/// requests to that server like any other (and copied as such); a mirror connection has none of its own.
pub fn scenario_prewarm(layout: &str, behaviour: &str, requests: usize) -> Scenario {
    let mut sc = scenario(layout, behaviour, "from-start", requests);
    sc.toml = sc.toml.replacen("\n[pools.", "\n[plugins.prewarmer]\nenabled = true\nqueries = [\"SELECT 'prewarm one'\", \"SELECT 'prewarm two'\"]\n\n[pools.", 1);
    sc.name = format!("{} prewarmer=on", sc.name);
    sc
}

/// A mirror that logs the pooler in, then stops reading for eight seconds and resumes, while the client
/// sends requests large enough to fill the pipe to the mirror (1 MiB in the sim): whatever the pooler
/// does about the stalled mirror, what the mirror finally reads is whole requests.
pub fn scenario_stall(layout: &str) -> Scenario {
    let mut sc = scenario(layout, "healthy", "from-start", 0);
    let big = "x".repeat(400_000);
    let mut c = Script::new("c0").connect("alice", "db", Some("alicepw")).q(&format!("INSERT INTO t VALUES (0) /*{}*/", tag(0, 0, 0)));
    // the first request has opened the mirror connection; now the mirror stalls
    c = c.wait(Cond::ActorAt(1, 1));
    for j in 1..6 {
        c = c.q(&format!("INSERT INTO t VALUES ('{}') /*{}*/", big, tag(0, j, 0)));
    }
    c = c.wait(Cond::ActorsDone(vec![1]));
    for j in 6..9 {
        c = c.q(&format!("INSERT INTO t VALUES ({}) /*{}*/", j, tag(0, j, 0)));
    }
    c = c.wait(Cond::TimeMs(12_000)).terminate();
    let m = sc.servers.iter().find(|s| s.label.contains("mirror-of-0")).map(|s| s.addr.clone()).unwrap();
    let (m1, m2) = (m.clone(), m.clone());
    let env_steps = vec![
        Step::Wait(Cond::ActorAt(0, 3)),
        Step::Call(format!("mirror {} stops reading", m), Arc::new(move |n| n.servers.get_mut(&m1).unwrap().pause_reads = true)),
        Step::Wait(Cond::TimeMs(8000)),
        Step::Call(format!("mirror {} reads again", m), Arc::new(move |n| n.servers.get_mut(&m2).unwrap().pause_reads = false)),
    ];
    sc.actors = vec![c.actor(), env("mirror-env", env_steps)];
    sc.name = format!("C20 layout={} mirror=stalls-then-resumes big-requests", layout);
    sc.opts.horizon_ms = 60_000;
    sc
}

/// The same, and while the mirror is stalled a RELOAD rebuilds the pool: the server connection (and with it the
/// mirror connection) is closed by the pooler with requests still queued for the mirror.
pub fn scenario_stall_reload(layout: &str) -> Scenario {
    let mut sc = scenario_stall(layout);
    sc.alt_tomls = vec![sc.toml.replacen("[pools.db]\n", "[pools.db]\nidle_timeout = 40000\n", 1)];
    assert!(sc.alt_tomls[0].contains("idle_timeout = 40000"));
    let n = sc.actors[1].steps.len();
    // between "stops reading" and "reads again": after four seconds of the stall
    sc.actors[1].steps.insert(n - 2, Step::Wait(Cond::TimeMs(4000)));
    sc.actors[1].steps.insert(n - 1, Step::WriteConfig(0));
    sc.actors[1].steps.insert(n, Step::Admin("RELOAD".into()));
    // the client's next statement, still during the stall, makes it let go of the old pool: that is when the
    // pooler closes the old server connection
    let after_reload = n + 1;
    let extra = Script::new("x").wait(Cond::ActorAt(1, after_reload)).q(&format!("INSERT INTO t VALUES (55) /*{}*/", tag(0, 55, 0))).actor().steps;
    let at = sc.actors[0].steps.iter().position(|x| matches!(x, Step::Wait(Cond::ActorsDone(_)))).unwrap();
    for (i, st) in extra.into_iter().enumerate() {
        sc.actors[0].steps.insert(at + i, st);
    }
    sc.name = format!("{} reload-during-stall", sc.name);
    sc
}

fn is_subsequence(small: &[Msg], big: &[Msg]) -> Option<usize> {
    // returns the index in `small` of the first message that cannot be matched
    let mut j = 0;
    for (i, m) in small.iter().enumerate() {
        let mut found = false;
        while j < big.len() {
            j += 1;
            if big[j - 1] == *m {
                found = true;
                break;
            }
        }
        if !found {
            return Some(i);
        }
    }
    None
}

pub fn oracle(sc: &Scenario, out: &Outcome) -> Vec<Violation> {
    let log = &out.log;
    let mut vs = Vec::new();
    let behaviour = sc.name.split_whitespace().find_map(|w| w.strip_prefix("mirror=")).unwrap_or("");
    let layout = sc.meta["layout"].as_str().unwrap();
    let ctx = format!("layout={}:mirror={}", layout, behaviour);
    if out.blocked {
        vs.push(v("C20.blocked", format!("C20.blocked:{}", ctx), format!("the client is blocked because of a mirror: {}", blocked_note(log).unwrap_or_default())));
        return vs;
    }
    // same replies as without mirrors (= as a direct connection)
    vs.extend(compare_with_reference(log, 0, false, "C20.replies", &ctx));
    if log.iter().any(|e| matches!(&e.rec, Rec::CEof { c: 0 })) {
        // EOF is expected only after the client's own Terminate
        let term = log.iter().find(|e| matches!(&e.rec, Rec::CSend { c: 0, bytes } if bytes.first() == Some(&b'X') && bytes.len() == 5)).map(|e| e.seq);
        let eof = log.iter().find(|e| matches!(&e.rec, Rec::CEof { c: 0 })).map(|e| e.seq).unwrap();
        if term.map(|t| eof < t).unwrap_or(true) {
            vs.push(v("C20.disconnected", format!("C20.disconnected:{}", ctx), "the client was disconnected before it terminated".into()));
        }
    }
    // no added waiting: every reply arrives in the same virtual instant as its request
    let mut last_send: Option<u64> = None;
    for e in log {
        match &e.rec {
            Rec::CSend { c: 0, .. } => last_send = Some(e.t_ms),
            Rec::CRecv { c: 0, msg } if msg.code == b'Z' => {
                if let Some(t) = last_send {
                    if e.t_ms > t + 1 {
                        vs.push(v(
                            "C20.added-waiting",
                            format!("C20.added-waiting:{}", ctx),
                            format!("a reply arrived {} ms (virtual) after its request; without mirrors it arrives in the same instant", e.t_ms - t),
                        ));
                        break;
                    }
                }
            }
            _ => {}
        }
    }
    // what reaches a mirror is an in-order selection of whole requests sent to ITS server
    let target_host = |label: &str| -> Option<usize> { label.rsplit("mirror-of-").next().and_then(|x| x.parse::<usize>().ok()) };
    let mut target_msgs: Vec<Vec<Msg>> = vec![vec![], vec![]];
    for e in log {
        if let Rec::BRecv { conn, msg, .. } = &e.rec {
            let srv = conn_server(log, *conn);
            if srv.starts_with("pg-s0-p0") {
                target_msgs[0].push(msg.clone());
            } else if srv.starts_with("pg-s0-r0") {
                target_msgs[1].push(msg.clone());
            }
        }
    }
    // a mirror that is healthy for the whole run and never behind (under the sim its channel never fills)
    // receives every request sent to its server: what a sibling mirror does must not thin out its copy
    let faulty_first = behaviour != "healthy";
    for sv in sc.servers.iter().filter(|s| s.label.contains("mirror")) {
        let first_mirror = sv.addr.starts_with("pg-m0:") || (layout == "one-on-1" && sv.addr.starts_with("pg-m1:"));
        if faulty_first && first_mirror {
            continue; // this is the mirror whose behaviour the scenario varies
        }
        let t = match target_host(&sv.label) {
            Some(t) => t,
            None => continue,
        };
        let mut got: Vec<Msg> = Vec::new();
        for conn in conn_ids(log) {
            if conn_server(log, conn) == sv.addr {
                got.extend(brecv_of(log, conn).into_iter().map(|(_, m, _)| m.clone()).filter(|m| m.code != b'X'));
            }
        }
        let want: Vec<Msg> = target_msgs[t].iter().filter(|m| m.code != b'X').cloned().collect();
        if got.len() < want.len() && is_subsequence(&got, &want).is_none() {
            let missing = want.iter().find(|m| !got.contains(m)).map(describe).unwrap_or_default();
            vs.push(v(
                "C20.healthy-mirror-incomplete",
                format!("C20.healthy-mirror-incomplete:{}", ctx),
                format!("healthy mirror {} received {} of the {} messages sent to server {} (first missing: {})", sv.addr, got.len(), want.len(), t, missing),
            ));
        }
    }
    // whole requests only: a mirror connection never ends in the middle of a message
    for e in log {
        if let Rec::Note { msg } = &e.rec {
            if msg.contains("TORN-MESSAGE") {
                if let Some(id) = msg.split_whitespace().nth(1).and_then(|x| x.parse::<usize>().ok()) {
                    let srv = conn_server(log, id);
                    if sc.servers.iter().any(|s| s.addr == srv && s.label.contains("mirror")) {
                        vs.push(v("C20.partial-request", format!("C20.partial-request:torn:{}", ctx), format!("mirror {}: {}", srv, msg)));
                    }
                }
            }
        }
    }
    for conn in conn_ids(log) {
        let srv = conn_server(log, conn);
        let label = match sc.servers.iter().find(|s| s.addr == srv) {
            Some(s) => s.label.clone(),
            None => continue,
        };
        if !label.contains("mirror") {
            continue;
        }
        let t = match target_host(&label) {
            Some(t) => t,
            None => continue,
        };
        let got: Vec<Msg> = brecv_of(log, conn).into_iter().map(|(_, m, _)| m.clone()).filter(|m| m.code != b'X').collect();
        if let Some(i) = is_subsequence(&got, &target_msgs[t]) {
            let other = is_subsequence(&got[i..i + 1], &target_msgs[1 - t]).is_none();
            vs.push(v(
                "C20.mirror-traffic",
                format!("C20.mirror-traffic:{}:{}", if other { "other-servers-request" } else { "not-a-copy" }, ctx),
                format!(
                    "mirror connection {} ({}) received {} which is not an in-order copy of a request sent to server {}{}",
                    conn,
                    label,
                    describe(&got[i]),
                    t,
                    if other { " (it was sent to the other server)" } else { "" }
                ),
            ));
        }
        // whole requests: an extended batch is mirrored completely or not at all
        let mut k = 0;
        while k < got.len() {
            if got[k].code == b'P' {
                let codes: Vec<u8> = got[k..(k + 4).min(got.len())].iter().map(|m| m.code).collect();
                if codes != vec![b'P', b'B', b'E', b'S'] && brecv_of(log, conn).last().map(|(_, m, _)| m.code) != Some(got[got.len() - 1].code) {
                    vs.push(v("C20.partial-request", format!("C20.partial-request:{}", ctx), format!("mirror connection {} received a partial batch {:?}", conn, codes.iter().map(|c| *c as char).collect::<String>())));
                }
                k += 4;
            } else {
                k += 1;
            }
        }
    }
    vs
}

pub fn build(tier: &str) -> SimCheck {
    let thorough = tier == "thorough";
    let mut scenarios = Vec::new();
    for layout in LAYOUTS {
        for b in BEHAVIOURS {
            let reqs = if thorough { 30 } else { 22 };
            scenarios.push(scenario(layout, b, "from-start", reqs));
            if *b != "healthy" && (thorough || *layout == "two-on-0" || *layout == "one-each") {
                scenarios.push(scenario(layout, b, "toggle", 6));
                scenarios.push(scenario(layout, b, "toggle-and-recover", 6));
            }
        }
    }
    for layout in ["one-on-0", "two-on-0"] {
        scenarios.push(scenario_stall(layout));
        scenarios.push(scenario_stall_reload(layout));
    }
    for layout in LAYOUTS {
        scenarios.push(scenario_prewarm(layout, "healthy", 6));
        scenarios.push(scenario_prewarm(layout, "close-mid-stream", 6));
    }
    SimCheck {
        scenarios,
        oracle: Box::new(oracle),
        bound: if thorough { 3 } else { 2 },
        limits: Limits { max_wall_s: if thorough { 2400.0 } else { 150.0 }, ..Default::default() },
        rule: "scenario = mirror layout (one mirror on server 0, on server 1, two on server 0, one on each) x behaviour of the first mirror (healthy, down, closing after accept, SYN black hole, accepting and never answering, accepting and never reading, closing mid-stream, answering errors, slow), from the start or toggled (and recovered) at every point of the client's program (<= bound deviations); 22-30 requests (each server gets more chunks than the 10-slot mirror channel holds) alternating between primary and replica over both protocols incl. COPY and multi-kilobyte replies; also a mirror that stalls for eight seconds and resumes while 400 KB requests fill the pipe to it (also with a RELOAD that rebuilds the pool during the stall); also with the prewarmer plugin on (statements of the pooler's own on every new server connection)".into(),
        assumptions: vec![
            "'same replies as without mirrors' is judged against the direct-connection reference; 'no added waiting' as: every reply arrives in the virtual instant of its request".into(),
            "request wholeness is checked at message level (the backend cannot see the pooler's write boundaries)".into(),
        ],
    }
}
