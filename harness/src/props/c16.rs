//! C16 (sim part) — PAUSE holds new transactions and RESUME releases every one of them.

use super::common::*;
use super::SimCheck;
use crate::cfg::{env, Cfg, PoolCfg, Script};
use crate::explore::{Limits, Violation};
use crate::mockpg::Rec;
use crate::wire;
use crate::world::{Opts, Outcome, Scenario, Step};

fn client(c: usize, db: &str, prog: &str) -> Script {
    let mut s = Script::new(&format!("c{}", c)).connect("alice", db, Some("alicepw"));
    match prog {
        "two-txn" => {
            s = s
                .q(&format!("BEGIN /*{}*/", tag(c, 0, 0)))
                .q(&format!("SELECT 1 /*{}*/", tag(c, 0, 1)))
                .q(&format!("COMMIT /*{}*/", tag(c, 0, 2)))
                .q(&format!("SELECT 2 /*{}*/", tag(c, 1, 0)));
        }
        "autos" => {
            s = s.q(&format!("SELECT 1 /*{}*/", tag(c, 0, 0))).q(&format!("SELECT 2 /*{}*/", tag(c, 1, 0))).q(&format!("SELECT 3 /*{}*/", tag(c, 2, 0)));
        }
        "one" => {
            s = s.q(&format!("SELECT 1 /*{}*/", tag(c, 0, 0)));
        }
        // a transaction that has failed is still a running transaction until its ROLLBACK
        "failed-txn" => {
            s = s
                .q(&format!("BEGIN /*{}*/", tag(c, 0, 0)))
                .q(&format!("SELECT ERR! /*{}*/", tag(c, 0, 1)))
                .q(&format!("SELECT 1 /*{}*/", tag(c, 0, 2)))
                .q(&format!("ROLLBACK /*{}*/", tag(c, 0, 3)))
                .q(&format!("SELECT 2 /*{}*/", tag(c, 1, 0)));
        }
        // batches the pooler answers by itself (a lone Sync) between the transactions: the client is
        // between transactions all the same
        "sync-autos" => {
            s = s
                .send_z(wire::sync(), "lone S")
                .q(&format!("SELECT 1 /*{}*/", tag(c, 0, 0)))
                .send_z(wire::sync(), "lone S")
                .q(&format!("SELECT 2 /*{}*/", tag(c, 1, 0)))
                .send_z(wire::sync(), "lone S")
                .q(&format!("SELECT 3 /*{}*/", tag(c, 2, 0)));
        }
        // extended-protocol transactions
        "ext-autos" => {
            for j in 0..3 {
                let mut b = wire::parse("", &format!("SELECT 1 /*{}*/", tag(c, j, 0)), &[]);
                b.extend(wire::bind("", "", &[], &[], &[]));
                b.extend(wire::execute("", 0));
                b.extend(wire::sync());
                s = s.send_z(b, "P B E S");
            }
        }
        _ => panic!("prog"),
    }
    s.terminate()
}

pub fn scenario(pool_size: u32, progs: &[&str], admin: &[&str], per_pool: bool) -> Scenario {
    let mut cfg = Cfg::one(PoolCfg::simple("db", "transaction", pool_size, 1, 0));
    let mut p2 = PoolCfg::simple("db2", "transaction", pool_size, 1, 0);
    p2.shards[0].servers[0].0 = "pg-other".into();
    cfg.pools.push(p2);
    let servers = cfg.servers();
    let mut actors: Vec<_> = progs.iter().enumerate().map(|(i, p)| client(i, "db", p).actor()).collect();
    // a client of the other pool
    let other = actors.len();
    actors.push(client(other, "db2", "autos").actor());
    let steps: Vec<Step> = admin
        .iter()
        .map(|a| {
            if per_pool {
                Step::Admin(format!("{} db,alice", a))
            } else {
                Step::Admin(a.to_string())
            }
        })
        .collect();
    actors.push(env("admin", steps));
    Scenario {
        name: format!("C16 pool_size={} progs={} admin={} scope={}", pool_size, progs.join("+"), admin.join(";"), if per_pool { "pool" } else { "global" }),
        toml: cfg.toml(),
        alt_tomls: vec![],
        servers,
        actors,
        opts: Opts::default(),
        meta: serde_json::json!({"nclients": progs.len(), "per_pool": per_pool}),
    }
}

/// A RELOAD lands between PAUSE and RESUME and replaces the paused pool (its pool_size changed) or takes it
/// out of the file: the clients held by the pause wait on the old pool object; RESUME (or the pool's
/// disappearance) must still let every one of them go.
pub fn reload_scenario(per_pool: bool, kind: &str) -> Scenario {
    let mut sc = scenario(1, &["autos", "two-txn"], &["PAUSE", "RESUME"], per_pool);
    let mut cfg = Cfg::one(PoolCfg::simple("db", "transaction", 2, 1, 0));
    let mut p2 = PoolCfg::simple("db2", "transaction", 1, 1, 0);
    p2.shards[0].servers[0].0 = "pg-other".into();
    if kind == "removed" {
        cfg.pools.clear();
    }
    cfg.pools.push(p2);
    sc.alt_tomls = vec![cfg.toml()];
    let admin = sc.actors.len() - 1;
    let pause = sc.actors[admin].steps[0].clone();
    let resume = sc.actors[admin].steps[1].clone();
    sc.actors[admin].steps = vec![pause, Step::WriteConfig(0), Step::Admin("RELOAD".into()), resume];
    sc.name = format!("C16 pool_size=1 progs=autos+two-txn admin=PAUSE;RELOAD({});RESUME scope={}", kind, if per_pool { "pool" } else { "global" });
    sc.meta["reload"] = serde_json::json!(kind);
    sc
}

/// The queued scenario with a RELOAD that rebuilds the pool (its idle_timeout changes) *before* the PAUSE: the
/// queued client still waits on the old pool object when the pause arrives, and must be held like everybody else.
pub fn reload_then_pause_queued_scenario(per_pool: bool) -> Scenario {
    let mut sc = queued_scenario(per_pool);
    sc.alt_tomls = vec![sc.toml.replacen("[pools.db]\n", "[pools.db]\nidle_timeout = 40000\n", 1)];
    assert!(sc.alt_tomls[0].contains("idle_timeout = 40000"));
    let admin = sc.actors.len() - 1;
    // steps: [wait for c1 to be queued, PAUSE, wait for c0, RESUME] -> insert the reload before the PAUSE
    sc.actors[admin].steps.insert(1, Step::WriteConfig(0));
    sc.actors[admin].steps.insert(2, Step::Admin("RELOAD".into()));
    // c0 waited for the admin to be past its PAUSE: two more steps now
    for st in sc.actors[0].steps.iter_mut() {
        if let Step::Wait(crate::world::Cond::ActorAt(3, n)) = st {
            *n += 2;
        }
    }
    sc.name = sc.name.replace("admin=PAUSE;RESUME", "admin=RELOAD(changed);PAUSE;RESUME");
    sc
}

/// pool_size 1: c0 holds the only server inside a transaction, c1's first statement is already waiting
/// for a server when PAUSE arrives, then c0 commits: c1 must not start before RESUME. (Found by the
/// thorough tier at three deviations; scripted here so that the quick tier reaches it at none.)
pub fn queued_scenario(per_pool: bool) -> Scenario {
    use crate::world::Cond;
    let mut cfg = Cfg::one(PoolCfg::simple("db", "transaction", 1, 1, 0));
    let mut p2 = PoolCfg::simple("db2", "transaction", 1, 1, 0);
    p2.shards[0].servers[0].0 = "pg-other".into();
    cfg.pools.push(p2);
    let servers = cfg.servers();
    let scope = |a: &str| if per_pool { format!("{} db,alice", a) } else { a.to_string() };
    let c0 = Script::new("c0")
        .connect("alice", "db", Some("alicepw"))
        .q(&format!("BEGIN /*{}*/", tag(0, 0, 0)))
        .q(&format!("SELECT 1 /*{}*/", tag(0, 0, 1)))
        .wait(Cond::ActorAt(3, 2))
        .q(&format!("COMMIT /*{}*/", tag(0, 0, 2)))
        .terminate();
    let c1 = Script::new("c1")
        .connect("alice", "db", Some("alicepw"))
        .wait(Cond::ActorAt(0, 5))
        .q(&format!("SELECT 1 /*{}*/", tag(1, 0, 0)))
        .q(&format!("SELECT 2 /*{}*/", tag(1, 1, 0)))
        .terminate();
    let other = client(2, "db2", "autos");
    let admin = env(
        "admin",
        vec![Step::Wait(Cond::ActorAt(1, 3)), Step::Admin(scope("PAUSE")), Step::Wait(Cond::ActorsDone(vec![0])), Step::Admin(scope("RESUME"))],
    );
    Scenario {
        name: format!("C16 pool_size=1 progs=holder+queued admin=PAUSE;RESUME scope={}", if per_pool { "pool" } else { "global" }),
        toml: cfg.toml(),
        alt_tomls: vec![],
        servers,
        actors: vec![c0.actor(), c1.actor(), other.actor(), admin],
        opts: Opts::default(),
        meta: serde_json::json!({"nclients": 2, "per_pool": per_pool}),
    }
}

/// Like `queued_scenario` with two queued clients, replies delivered one by one (so that a statement is
/// genuinely running) and a second PAUSE right after the RESUME: the client that is still queued behind the
/// running statement when the second PAUSE arrives must not start either.
pub fn queued_twice_scenario(per_pool: bool) -> Scenario {
    use crate::world::Cond;
    let mut cfg = Cfg::one(PoolCfg::simple("db", "transaction", 1, 1, 0));
    let mut p2 = PoolCfg::simple("db2", "transaction", 1, 1, 0);
    p2.shards[0].servers[0].0 = "pg-other".into();
    cfg.pools.push(p2);
    let mut servers = cfg.servers();
    for sv in servers.iter_mut() {
        if sv.addr.starts_with("pg-s0") {
            sv.gate = crate::mockpg::Gate::PerReply;
        }
    }
    let scope = |a: &str| if per_pool { format!("{} db,alice", a) } else { a.to_string() };
    let c0 = Script::new("c0")
        .connect("alice", "db", Some("alicepw"))
        .q(&format!("BEGIN /*{}*/", tag(0, 0, 0)))
        .q(&format!("SELECT 1 /*{}*/", tag(0, 0, 1)))
        .wait(Cond::ActorAt(4, 3))
        .q(&format!("COMMIT /*{}*/", tag(0, 0, 2)))
        .terminate();
    let queued = |c: usize| Script::new(&format!("c{}", c)).connect("alice", "db", Some("alicepw")).wait(Cond::ActorAt(0, 5)).q(&format!("SELECT 1 /*{}*/", tag(c, 0, 0))).terminate();
    let other = client(3, "db2", "autos");
    let admin = env(
        "admin",
        vec![
            Step::Wait(Cond::ActorAt(1, 3)),
            Step::Wait(Cond::ActorAt(2, 3)),
            Step::Admin(scope("PAUSE")),
            Step::Wait(Cond::ActorsDone(vec![0])),
            Step::Admin(scope("RESUME")),
            Step::Admin(scope("PAUSE")),
            Step::Wait(Cond::TimeMs(1)),
            Step::Admin(scope("RESUME")),
        ],
    );
    Scenario {
        name: format!("C16 pool_size=1 progs=holder+queued+queued admin=PAUSE;RESUME;PAUSE;RESUME scope={}", if per_pool { "pool" } else { "global" }),
        toml: cfg.toml(),
        alt_tomls: vec![],
        servers,
        actors: vec![c0.actor(), queued(1).actor(), queued(2).actor(), other.actor(), admin],
        opts: Opts::default(),
        meta: serde_json::json!({"nclients": 3, "per_pool": per_pool}),
    }
}

pub fn oracle(sc: &Scenario, out: &Outcome) -> Vec<Violation> {
    let log = &out.log;
    let mut vs = Vec::new();
    let nclients = sc.meta["nclients"].as_u64().unwrap() as usize;
    let per_pool = sc.meta["per_pool"].as_bool().unwrap();
    let admin_cmds = sc.name.split_whitespace().find_map(|w| w.strip_prefix("admin=")).unwrap_or("").to_string();
    let ctx = format!("admin={}:scope={}", admin_cmds, if per_pool { "pool" } else { "global" });
    // (3) everybody completes after the last RESUME
    if out.blocked {
        vs.push(v(
            "C16.blocked",
            format!("C16.blocked:{}", ctx),
            format!("a client stayed blocked although the last admin command was RESUME: {}", blocked_note(log).unwrap_or_default()),
        ));
    }
    // paused intervals: [PAUSE reply read by the admin client, RESUME sent]
    let admin_slot = sc.actors.len(); // the admin connection lives in the extra client slot
    let mut intervals: Vec<(usize, usize)> = Vec::new();
    let mut pending_pause: Option<usize> = None;
    let mut last_admin_send: Option<String> = None;
    for e in log {
        match &e.rec {
            Rec::CSend { c, bytes } if *c == admin_slot => {
                let t = String::from_utf8_lossy(bytes).to_string();
                if t.contains("RESUME") {
                    if let Some(s) = pending_pause.take() {
                        intervals.push((s, e.seq));
                    }
                }
                last_admin_send = Some(t);
            }
            Rec::CRecv { c, msg } if *c == admin_slot && msg.code == b'Z' => {
                if let Some(t) = &last_admin_send {
                    if t.contains("PAUSE") {
                        pending_pause = Some(e.seq);
                    }
                }
                last_admin_send = None;
            }
            _ => {}
        }
    }
    if let Some(s) = pending_pause {
        intervals.push((s, usize::MAX));
    }
    // (1) no first statement of a new transaction reaches the paused pool inside an interval
    for e in log {
        if let Rec::BRecv { conn, msg, st } = &e.rec {
            if is_control(msg) {
                continue;
            }
            if let Some(t) = msg_tag(msg) {
                let paused_pool_client = t.c < nclients;
                let first_of_txn = t.s == 0 && st.status == b'I';
                if paused_pool_client && first_of_txn && intervals.iter().any(|(a, b)| e.seq > *a && e.seq < *b) {
                    // when did the client send it?
                    let sent = log.iter().find(|x| matches!(&x.rec, Rec::CSend { c, bytes } if *c == t.c && find_tag(bytes) == Some(t))).map(|x| x.seq).unwrap_or(0);
                    let (a, _) = intervals.iter().find(|(a, b)| e.seq > *a && e.seq < *b).unwrap();
                    let kind = if sent > *a { "sent-while-paused" } else { "sent-before-pause" };
                    vs.push(v(
                        "C16.started-while-paused",
                        format!("C16.started-while-paused:{}:{}", kind, ctx),
                        format!("backend conn {} received {} (first statement of a new transaction of client {}) at seq {} while the pool was paused (client sent it at seq {})", conn, describe(msg), t.c, e.seq, sent),
                    ));
                }
            }
        }
    }
    // (2) transactions complete normally, (4) nobody gets an error because of PAUSE
    for c in 0..=nclients {
        let errs: Vec<String> = client_msgs(log, c)
            .iter()
            .filter(|(_, m)| m.code == b'E')
            .map(|(_, m)| m.err_field(b'M').unwrap_or_default())
            // (the failed-txn program asks for these two itself)
            .filter(|e| !e.contains("ERR!") && !e.contains("current transaction is aborted"))
            // (a pool taken out of the file by the RELOAD: its clients are told so)
            .filter(|_| sc.meta.get("reload").and_then(|r| r.as_str()) != Some("removed"))
            .collect();
        if !errs.is_empty() {
            vs.push(v("C16.error", format!("C16.error:{}", ctx), format!("client {} received errors {:?}", c, errs)));
        }
    }
    // (2) a statement of a transaction already running is not held: no RESUME lies between its being sent and its
    // reaching the server
    if !out.blocked {
        for e in log {
            if let Rec::BRecv { msg, .. } = &e.rec {
                if is_control(msg) {
                    continue;
                }
                if let Some(t) = msg_tag(msg) {
                    if t.c < nclients && t.s > 0 {
                        let sent = log.iter().find(|x| matches!(&x.rec, Rec::CSend { c, bytes } if *c == t.c && find_tag(bytes) == Some(t))).map(|x| x.seq).unwrap_or(0);
                        let held = log.iter().any(|x| x.seq > sent && x.seq < e.seq && matches!(&x.rec, Rec::CSend { c, bytes } if *c == admin_slot && String::from_utf8_lossy(bytes).contains("RESUME")));
                        if held {
                            vs.push(v("C16.running-held", format!("C16.running-held:{}", ctx), format!("statement {:?} of a transaction that was already running waited for RESUME", t)));
                        }
                    }
                }
            }
        }
    }
    // every statement of a running transaction runs on the connection its first statement ran on
    {
        let mut conn_of: std::collections::BTreeMap<(usize, usize), usize> = std::collections::BTreeMap::new();
        for e in log {
            if let Rec::BRecv { conn, msg, .. } = &e.rec {
                if is_control(msg) {
                    continue;
                }
                if let Some(t) = msg_tag(msg) {
                    if t.c < nclients {
                        let first = *conn_of.entry((t.c, t.t)).or_insert(*conn);
                        if first != *conn {
                            vs.push(v("C16.transaction-split", format!("C16.transaction-split:{}", ctx), format!("statement {:?} ran on backend conn {} but its transaction began on conn {}", t, conn, first)));
                        }
                    }
                }
            }
        }
    }
    // (4) the other pool is not held: its statements are never delayed behind a RESUME when only db is paused
    if per_pool && !out.blocked {
        for e in log {
            if let Rec::BRecv { msg, .. } = &e.rec {
                if let Some(t) = msg_tag(msg) {
                    if t.c == nclients {
                        let sent = log.iter().find(|x| matches!(&x.rec, Rec::CSend { c, bytes } if *c == t.c && find_tag(bytes) == Some(t))).map(|x| x.seq).unwrap_or(0);
                        // a RESUME between send and receipt means the statement had been held
                        let held = log.iter().any(|x| x.seq > sent && x.seq < e.seq && matches!(&x.rec, Rec::CSend { c, bytes } if *c == admin_slot && String::from_utf8_lossy(bytes).contains("RESUME")));
                        if held {
                            vs.push(v("C16.other-pool-held", format!("C16.other-pool-held:{}", ctx), format!("statement {:?} of the pool that was not paused waited for RESUME", t)));
                        }
                    }
                }
            }
        }
    }
    vs
}

pub fn build(tier: &str) -> SimCheck {
    let thorough = tier == "thorough";
    let mut scenarios = Vec::new();
    for pool_size in [1u32, 2] {
        for per_pool in [false, true] {
            let prog_sets: Vec<Vec<&str>> = if thorough {
                vec![vec!["two-txn", "two-txn"], vec!["autos", "two-txn"], vec!["two-txn", "autos", "one"], vec!["autos", "autos", "autos"], vec!["sync-autos", "ext-autos"], vec!["sync-autos", "two-txn", "one"], vec!["failed-txn", "two-txn"], vec!["failed-txn", "autos", "one"]]
            } else {
                vec![vec!["two-txn", "autos"], vec!["one", "one", "one"], vec!["sync-autos", "ext-autos"], vec!["failed-txn", "one"]]
            };
            for progs in prog_sets {
                let admin_sets: Vec<Vec<&str>> = if thorough {
                    vec![vec!["PAUSE", "RESUME"], vec!["PAUSE", "RESUME", "PAUSE", "RESUME"], vec!["RESUME", "PAUSE", "RESUME"], vec!["PAUSE", "PAUSE", "RESUME"]]
                } else {
                    vec![vec!["PAUSE", "RESUME"], vec!["PAUSE", "RESUME", "PAUSE", "RESUME"]]
                };
                for admin in admin_sets {
                    scenarios.push(scenario(pool_size, &progs, &admin, per_pool));
                }
            }
        }
    }
    for per_pool in [false, true] {
        for kind in ["changed", "removed"] {
            if kind == "removed" && per_pool {
                continue; // RESUME db,alice would name a pool that is gone
            }
            scenarios.push(reload_scenario(per_pool, kind));
        }
    }
    scenarios.push(reload_then_pause_queued_scenario(false));
    scenarios.push(reload_then_pause_queued_scenario(true));
    scenarios.push(queued_scenario(false));
    scenarios.push(queued_scenario(true));
    scenarios.push(queued_twice_scenario(false));
    scenarios.push(queued_twice_scenario(true));
    SimCheck {
        scenarios,
        oracle: Box::new(oracle),
        bound: if thorough { 3 } else { 2 },
        limits: Limits { max_wall_s: if thorough { 7200.0 } else { 150.0 }, ..Default::default() },
        rule: "scenario = pool_size {1,2} x global / per-pool PAUSE x client programs (2-3 clients of the paused pool with multi-statement and autocommit transactions, extended-protocol transactions, lone Sync batches (answered by the pooler itself) between transactions, a transaction that fails and is rolled back, one client of another pool) x admin sequence (P;R / P;R;P;R / R;P;R / P;P;R; also P;RELOAD;R where the reload replaces or removes the paused pool, and RELOAD;P;R with a client queued on the replaced pool), plus the scripted 'statement already queued for the only server when PAUSE arrives' scenario; all schedules with <= bound deviations: PAUSE and RESUME land while clients are idle, arriving, mid-transaction, between transactions or queued for a connection".into(),
        assumptions: vec!["paused interval = from the PAUSE reply being read by the admin client to the RESUME being sent".into(), "interleavings below await-point granularity are decided by the loom part".into()],
    }
}
