//! C03 — queries and replies are relayed complete, in order and unmodified.
//!
//! Part A (raw): the backend answers client requests with scripted raw byte
//! streams cut into TCP writes at chosen offsets; the client must receive
//! exactly those bytes, the backend exactly the client's bytes.
//! Part B (ref): the normal reference backend; what the client receives must
//! equal what a direct connection to the same automaton would have produced.

use super::common::*;
use super::SimCheck;
use crate::cfg::{Cfg, PoolCfg, Script};
use crate::explore::{Limits, Violation};
use crate::mockpg::{reference_replies, Gate, RawScript, Rec};
use crate::wire::{self, Msg};
use crate::world::{Cond, Opts, Outcome, Scenario};

fn row(size: usize, idx: usize) -> Vec<u8> {
    // one DataRow whose total encoded length is exactly `size` (min 12)
    let overhead = 1 + 4 + 2 + 4;
    let n = size.saturating_sub(overhead).max(1);
    let mut payload = format!("r{}:", idx).into_bytes();
    while payload.len() < n {
        payload.push(b'a' + (payload.len() % 26) as u8);
    }
    payload.truncate(n);
    wire::data_row(&[&payload])
}

fn rows_reply(sizes: &[usize], status: u8) -> Vec<u8> {
    let mut b = wire::row_description(&["c"]);
    for (i, s) in sizes.iter().enumerate() {
        b.extend(row(*s, i));
    }
    b.extend(wire::command_complete(&format!("SELECT {}", sizes.len())));
    b.extend(wire::ready(status));
    b
}

fn copy_chunk(size: usize, idx: usize) -> Vec<u8> {
    let n = size.saturating_sub(5).max(1);
    let mut payload = format!("k{}:", idx).into_bytes();
    while payload.len() < n {
        payload.push(b'A' + (payload.len() % 26) as u8);
    }
    payload.truncate(n);
    wire::copy_data(&payload)
}

/// (name, request bytes list (client sends in order, waiting as noted), scripted replies)
pub struct RawCase {
    pub name: String,
    /// (bytes, wait: 0 none / b'Z' / b'G')
    pub requests: Vec<(Vec<u8>, u8)>,
    pub replies: Vec<Vec<u8>>,
}

pub fn raw_cases(thorough: bool) -> Vec<RawCase> {
    let mut v = Vec::new();
    let q = |s: &str| wire::query(s);
    let rd_len = wire::row_description(&["c"]).len(); // 26 bytes
    let mut size_sets: Vec<Vec<usize>> = vec![
        vec![],
        vec![12],
        vec![100, 100],
        vec![4090, 4090],
        vec![8196 - rd_len - 1],
        vec![8196 - rd_len],
        vec![8196 - rd_len + 1],
        vec![8191, 8192],
        vec![8196, 8197],
        vec![20000],
        vec![3000, 3000, 3000, 3000, 3000, 3000],
        vec![8196 - rd_len, 12],
        vec![8196 - rd_len - 12, 12, 12],
    ];
    if thorough {
        size_sets.push(vec![40000, 12, 40000]);
        size_sets.push(vec![8186, 8186, 8186]);
        size_sets.push(vec![1000; 30]);
    }
    for sizes in size_sets {
        v.push(RawCase {
            name: format!("rows{:?}", sizes).replace(' ', ""),
            requests: vec![(q("SELECT rows /*c0.t0.s0*/"), b'Z'), (q("SELECT after /*c0.t1.s0*/"), b'Z')],
            replies: vec![rows_reply(&sizes, b'I'), rows_reply(&[13], b'I')],
        });
    }
    // empty query
    let mut b = wire::empty_query();
    b.extend(wire::ready(b'I'));
    v.push(RawCase { name: "empty".into(), requests: vec![(q("/*c0.t0.s0*/"), b'Z'), (q("SELECT after /*c0.t1.s0*/"), b'Z')], replies: vec![b, rows_reply(&[13], b'I')] });
    // multi-statement result
    let mut b = wire::row_description(&["a"]);
    b.extend(row(5000, 0));
    b.extend(wire::command_complete("SELECT 1"));
    b.extend(wire::row_description(&["b"]));
    b.extend(row(5000, 1));
    b.extend(wire::command_complete("SELECT 1"));
    b.extend(wire::ready(b'I'));
    v.push(RawCase { name: "multi".into(), requests: vec![(q("SELECT a; SELECT b /*c0.t0.s0*/"), b'Z'), (q("SELECT after /*c0.t1.s0*/"), b'Z')], replies: vec![b, rows_reply(&[13], b'I')] });
    // notices and parameter status between rows
    let mut b = wire::row_description(&["c"]);
    b.extend(row(4000, 0));
    b.extend(wire::notice_response("halfway there"));
    b.extend(row(4300, 1));
    b.extend(wire::parameter_status("IntervalStyle", "iso_8601"));
    b.extend(row(200, 2));
    b.extend(wire::command_complete("SELECT 3"));
    b.extend(wire::ready(b'I'));
    v.push(RawCase { name: "notice+status".into(), requests: vec![(q("SELECT noisy /*c0.t0.s0*/"), b'Z'), (q("SELECT after /*c0.t1.s0*/"), b'Z')], replies: vec![b, rows_reply(&[13], b'I')] });
    // error mid-stream
    let mut b = wire::row_description(&["c"]);
    b.extend(row(8100, 0));
    b.extend(row(100, 1));
    b.extend(wire::error_response("ERROR", "22012", "division by zero"));
    b.extend(wire::ready(b'I'));
    v.push(RawCase { name: "error-midstream".into(), requests: vec![(q("SELECT boom /*c0.t0.s0*/"), b'Z'), (q("SELECT after /*c0.t1.s0*/"), b'Z')], replies: vec![b, rows_reply(&[13], b'I')] });
    // copy out around the threshold
    for chunks in [vec![100usize, 100], vec![8190, 10], vec![8196, 8196], vec![8197], vec![3000, 3000, 3000, 3000]] {
        let mut b = wire::copy_out_response();
        for (i, c) in chunks.iter().enumerate() {
            b.extend(copy_chunk(*c, i));
        }
        b.extend(wire::copy_done());
        b.extend(wire::command_complete(&format!("COPY {}", chunks.len())));
        b.extend(wire::ready(b'I'));
        v.push(RawCase {
            name: format!("copyout{:?}", chunks).replace(' ', ""),
            requests: vec![(q("COPY t TO STDOUT /*c0.t0.s0*/"), b'Z'), (q("SELECT after /*c0.t1.s0*/"), b'Z')],
            replies: vec![b, rows_reply(&[13], b'I')],
        });
    }
    // copy in: client chunks around the 8196 flush threshold
    for chunks in [vec![100usize, 100], vec![8190, 10, 10], vec![8196, 5], vec![8197, 8197], vec![3000, 3000, 3000, 3000]] {
        let mut reqs = vec![(q("COPY t FROM STDIN /*c0.t0.s0*/"), b'G')];
        for (i, c) in chunks.iter().enumerate() {
            reqs.push((copy_chunk(*c, i), 0));
        }
        reqs.push((wire::copy_done(), b'Z'));
        reqs.push((q("SELECT after /*c0.t1.s0*/"), b'Z'));
        let mut done = wire::command_complete(&format!("COPY {}", chunks.len()));
        done.extend(wire::ready(b'I'));
        v.push(RawCase { name: format!("copyin{:?}", chunks).replace(' ', ""), requests: reqs, replies: vec![wire::copy_in_response(), done, rows_reply(&[13], b'I')] });
    }
    // copy fail
    {
        let mut reqs = vec![(q("COPY t FROM STDIN /*c0.t0.s0*/"), b'G')];
        reqs.push((copy_chunk(500, 0), 0));
        reqs.push((wire::copy_fail("changed my mind"), b'Z'));
        reqs.push((q("SELECT after /*c0.t1.s0*/"), b'Z'));
        let mut done = wire::error_response("ERROR", "57014", "COPY from stdin failed: changed my mind");
        done.extend(wire::ready(b'I'));
        v.push(RawCase { name: "copyfail".into(), requests: reqs, replies: vec![wire::copy_in_response(), done, rows_reply(&[13], b'I')] });
    }
    // a row-returning statement followed by COPY FROM STDIN in the same Query
    {
        let mut first = wire::row_description(&["c"]);
        first.extend(row(50, 0));
        first.extend(wire::command_complete("SELECT 1"));
        first.extend(wire::copy_in_response());
        let mut reqs = vec![(q("SELECT 1; COPY t FROM STDIN /*c0.t0.s0*/"), b'G')];
        reqs.push((copy_chunk(100, 0), 0));
        reqs.push((wire::copy_done(), b'Z'));
        reqs.push((q("SELECT after /*c0.t1.s0*/"), b'Z'));
        let mut done = wire::command_complete("COPY 1");
        done.extend(wire::ready(b'I'));
        v.push(RawCase { name: "select-then-copyin".into(), requests: reqs, replies: vec![first, done, rows_reply(&[13], b'I')] });
    }
    // extended batch with portal suspension
    {
        let mut batch = wire::parse("", "SELECT gen /*c0.t0.s0*/", &[]);
        batch.extend(wire::bind("", "", &[], &[], &[]));
        batch.extend(wire::execute("", 2));
        batch.extend(wire::sync());
        let mut r = wire::parse_complete();
        r.extend(wire::bind_complete());
        r.extend(row(4200, 0));
        r.extend(row(4200, 1));
        r.extend(wire::portal_suspended());
        r.extend(wire::ready(b'I'));
        v.push(RawCase { name: "portal-suspended".into(), requests: vec![(batch, b'Z'), (q("SELECT after /*c0.t1.s0*/"), b'Z')], replies: vec![r, rows_reply(&[13], b'I')] });
    }
    // in-transaction status is relayed
    v.push(RawCase {
        name: "status-T".into(),
        requests: vec![(q("BEGIN /*c0.t0.s0*/"), b'Z'), (q("SELECT in /*c0.t0.s1*/"), b'Z'), (q("COMMIT /*c0.t0.s2*/"), b'Z')],
        replies: vec![
            { let mut b = wire::command_complete("BEGIN"); b.extend(wire::ready(b'T')); b },
            rows_reply(&[8300], b'T'),
            { let mut b = wire::command_complete("COMMIT"); b.extend(wire::ready(b'I')); b },
        ],
    });
    v
}

fn cuts_for(reply: &[u8], thorough: bool) -> Vec<Vec<usize>> {
    // message boundaries +-{0..5} and the 8196 thresholds, as single cuts; plus "no cut"
    let mut points: Vec<usize> = Vec::new();
    let (msgs, _, _) = wire::split_stream(reply);
    let mut off = 0usize;
    for m in &msgs {
        off += m.body.len() + 5;
        for d in 0..=5usize {
            points.push(off + d);
            if off > d {
                points.push(off - d);
            }
        }
    }
    for t in [8196usize, 16392, 8192] {
        for d in 0..=2 {
            points.push(t + d);
            if t > d {
                points.push(t - d);
            }
        }
    }
    points.retain(|p| *p > 0 && *p < reply.len());
    points.sort();
    points.dedup();
    if !thorough && points.len() > 40 {
        // quick: keep boundary cuts (+-0,1,4,5) only
        let mut keep = Vec::new();
        let mut off = 0usize;
        for m in &msgs {
            off += m.body.len() + 5;
            for p in [off, off + 1, off + 4, off + 5, off.saturating_sub(1)] {
                keep.push(p);
            }
        }
        keep.extend([8195usize, 8196, 8197]);
        points.retain(|p| keep.contains(p));
    }
    let mut out: Vec<Vec<usize>> = vec![vec![]];
    for p in &points {
        out.push(vec![*p]);
    }
    if thorough && reply.len() < 200 {
        for (i, a) in points.iter().enumerate() {
            for b in points.iter().skip(i + 1) {
                out.push(vec![*a, *b]);
            }
        }
    }
    out
}

/// Which kind of message carries the relay buffer across the 8196-byte threshold: a notice, an error,
/// a wide row description, a parameter status — before, between and after rows.
pub fn threshold_cases() -> Vec<RawCase> {
    let q = |s: &str| wire::query(s);
    let big = |n: usize| "n".repeat(n);
    let after = || rows_reply(&[13], b'I');
    let mut v = Vec::new();
    let mut add = |name: &str, reply: Vec<u8>| {
        v.push(RawCase { name: format!("threshold-{}", name), requests: vec![(q("SELECT t /*c0.t0.s0*/"), b'Z'), (q("SELECT after /*c0.t1.s0*/"), b'Z')], replies: vec![reply, after()] });
    };
    for n in [8170usize, 8190, 9000, 20000] {
        // NOTICE then CommandComplete
        let mut b = wire::notice_response(&big(n));
        b.extend(wire::command_complete("DO"));
        b.extend(wire::ready(b'I'));
        add(&format!("notice{}-C", n), b);
        // NOTICE in front of a result set
        let mut b = wire::notice_response(&big(n));
        b.extend(wire::row_description(&["c"]));
        b.extend(row(100, 0));
        b.extend(row(100, 1));
        b.extend(wire::command_complete("SELECT 2"));
        b.extend(wire::ready(b'I'));
        add(&format!("notice{}-rows", n), b);
        // rows, NOTICE, rows
        let mut b = wire::row_description(&["c"]);
        b.extend(row(100, 0));
        b.extend(wire::notice_response(&big(n)));
        b.extend(row(100, 1));
        b.extend(wire::command_complete("SELECT 2"));
        b.extend(wire::ready(b'I'));
        add(&format!("row-notice{}-row", n), b);
        // a large ErrorResponse, alone and after a row
        let mut b = wire::error_response("ERROR", "22000", &big(n));
        b.extend(wire::ready(b'I'));
        add(&format!("error{}", n), b);
        let mut b = wire::row_description(&["c"]);
        b.extend(row(100, 0));
        b.extend(wire::error_response("ERROR", "22000", &big(n)));
        b.extend(wire::ready(b'I'));
        add(&format!("row-error{}", n), b);
        // ParameterStatus
        let mut b = wire::parameter_status("search_path", &big(n));
        b.extend(wire::command_complete("SET"));
        b.extend(wire::ready(b'I'));
        add(&format!("status{}-C", n), b);
    }
    // two notices that only together cross the threshold
    let mut b = wire::notice_response(&big(4100));
    b.extend(wire::notice_response(&big(4100)));
    b.extend(wire::command_complete("DO"));
    b.extend(wire::ready(b'I'));
    add("notice4100x2-C", b);
    // a row description wider than the threshold
    for ncols in [300usize, 500] {
        let names: Vec<String> = (0..ncols).map(|i| format!("col{:03}", i)).collect();
        let refs: Vec<&str> = names.iter().map(|s| s.as_str()).collect();
        let mut b = wire::row_description(&refs);
        let cells: Vec<Vec<u8>> = (0..ncols).map(|i| format!("{}", i).into_bytes()).collect();
        let cell_refs: Vec<&[u8]> = cells.iter().map(|c| c.as_slice()).collect();
        b.extend(wire::data_row(&cell_refs));
        b.extend(wire::command_complete("SELECT 1"));
        b.extend(wire::ready(b'I'));
        add(&format!("rowdesc{}cols", ncols), b);
    }
    v
}

/// COPY FROM STDIN with every sequence of client chunk sizes (below / at / above the 8196-byte
/// forwarding threshold) up to a length: order and completeness of what the server receives.
pub fn copyin_seq_cases(thorough: bool) -> Vec<RawCase> {
    let q = |sql: &str| wire::query(sql);
    let sizes = [10usize, 4000, 8187, 8191, 8192, 9000];
    let maxlen = if thorough { 4 } else { 3 };
    let mut seqs: Vec<Vec<usize>> = vec![vec![]];
    let mut out = Vec::new();
    for _ in 0..maxlen {
        let mut next = Vec::new();
        for s in &seqs {
            for z in sizes {
                let mut t = s.clone();
                t.push(z);
                next.push(t);
            }
        }
        for chunks in &next {
            let mut reqs = vec![(q("COPY t FROM STDIN /*c0.t0.s0*/"), b'G')];
            for (i, c) in chunks.iter().enumerate() {
                reqs.push((copy_chunk(*c, i), 0));
            }
            reqs.push((wire::copy_done(), b'Z'));
            reqs.push((q("SELECT after /*c0.t1.s0*/"), b'Z'));
            let mut done = wire::command_complete(&format!("COPY {}", chunks.len()));
            done.extend(wire::ready(b'I'));
            out.push(RawCase { name: format!("copyin-seq{:?}", chunks).replace(' ', ""), requests: reqs, replies: vec![wire::copy_in_response(), done, rows_reply(&[13], b'I')] });
        }
        seqs = next;
    }
    out
}

pub fn raw_scenario(case: &RawCase, which_reply: usize, cuts: &[usize], req_cut: Option<(usize, usize)>) -> Scenario {
    let cfg = Cfg::one(PoolCfg::simple("db", "transaction", 1, 1, 0));
    let mut servers = cfg.servers();
    let mut all_cuts: Vec<Vec<usize>> = case.replies.iter().map(|_| vec![]).collect();
    if which_reply < all_cuts.len() {
        all_cuts[which_reply] = cuts.to_vec();
    }
    servers[0].raw = Some(RawScript { replies: case.replies.clone(), cuts: all_cuts, used: 0 });
    servers[0].gate = Gate::PerReply;
    let mut s = Script::new("c0").connect("alice", "db", Some("alicepw"));
    let mut gs = 0;
    for (i, (bytes, wait)) in case.requests.iter().enumerate() {
        match req_cut {
            Some((ri, off)) if ri == i && off > 0 && off < bytes.len() => {
                s = s.send(bytes[..off].to_vec(), &format!("req{}[..{}]", i, off));
                s = s.send(bytes[off..].to_vec(), &format!("req{}[{}..]", i, off));
            }
            _ => s = s.send(bytes.clone(), &format!("req{}", i)),
        }
        match wait {
            b'Z' => s = s.expect_z(),
            b'G' => {
                gs += 1;
                s = s.wait(Cond::CodeOrClosed(b'G', gs));
            }
            _ => {}
        }
    }
    s = s.terminate();
    Scenario {
        name: format!(
            "C03 raw case={} reply={} cuts={:?} reqcut={}",
            case.name,
            which_reply,
            cuts,
            req_cut.map(|(a, b)| format!("{}.{}", a, b)).unwrap_or_else(|| "none".into())
        )
        .replace(", ", ","),
        toml: cfg.toml(),
        alt_tomls: vec![],
        servers,
        actors: vec![s.actor()],
        opts: Opts::default(),
        meta: serde_json::Value::Null,
    }
}

pub fn after_login(log: &[crate::mockpg::Entry], c: usize) -> Vec<Msg> {
    // client-received messages after the first ReadyForQuery (end of startup)
    let mut seen_z = false;
    let mut out = Vec::new();
    for (_, m) in client_msgs(log, c) {
        if !seen_z {
            if m.code == b'Z' {
                seen_z = true;
            }
            continue;
        }
        out.push(m.clone());
    }
    out
}

pub fn client_sent_msgs(log: &[crate::mockpg::Entry], c: usize) -> Vec<Msg> {
    // typed messages the client sent after startup/password
    let mut bytes = Vec::new();
    let mut n = 0;
    for e in log {
        if let Rec::CSend { c: cc, bytes: b } = &e.rec {
            if *cc == c {
                n += 1;
                if n <= 1 || (b.first() == Some(&b'p') && n == 2) {
                    continue; // startup packet, password
                }
                bytes.extend_from_slice(b);
            }
        }
    }
    wire::split_stream(&bytes).0
}

pub fn raw_oracle(sc: &Scenario, out: &Outcome) -> Vec<Violation> {
    let log = &out.log;
    let mut vs = Vec::new();
    let case = sc.name.split_whitespace().find_map(|w| w.strip_prefix("case=")).unwrap_or("").to_string();
    let ctx = format!("case={}", scrub(&case));
    let script = sc.servers[0].raw.as_ref().unwrap();
    if out.blocked {
        vs.push(v(
            "C03.raw-blocked",
            format!("C03.raw-blocked:{}", ctx),
            format!("relay deadlocked / never completed: {}", blocked_note(log).unwrap_or_default()),
        ));
        return vs;
    }
    // client side: bytes after login == concatenation of scripted replies (+ nothing else)
    let mut expected = Vec::new();
    for r in &script.replies {
        expected.extend_from_slice(r);
    }
    let got: Vec<u8> = after_login(log, 0).iter().flat_map(|m| m.encode()).collect();
    if got != expected {
        let p = got.iter().zip(expected.iter()).position(|(a, b)| a != b).unwrap_or(got.len().min(expected.len()));
        vs.push(v(
            "C03.raw-client-bytes",
            format!("C03.raw-client-bytes:{}", ctx),
            format!("client received {} bytes, script sent {}; first difference at offset {}", got.len(), expected.len(), p),
        ));
    }
    // server side: client-originated messages, in order, byte-identical
    let sent = client_sent_msgs(log, 0);
    let mut recv: Vec<Msg> = Vec::new();
    for e in log {
        if let Rec::BRecv { msg, .. } = &e.rec {
            if !is_control(msg) {
                recv.push(msg.clone());
            }
        }
    }
    // the client's Terminate is consumed by the pooler
    let sent_wo_x: Vec<Msg> = sent.into_iter().filter(|m| m.code != b'X').collect();
    let recv_wo_x: Vec<Msg> = recv.into_iter().filter(|m| m.code != b'X').collect();
    if sent_wo_x != recv_wo_x {
        let p = sent_wo_x.iter().zip(recv_wo_x.iter()).position(|(a, b)| a != b).unwrap_or(sent_wo_x.len().min(recv_wo_x.len()));
        vs.push(v(
            "C03.raw-server-bytes",
            format!("C03.raw-server-bytes:{}", ctx),
            format!(
                "backend received {} client messages, client sent {}; first difference at message {}: sent {:?} received {:?}",
                recv_wo_x.len(),
                sent_wo_x.len(),
                p,
                sent_wo_x.get(p).map(describe),
                recv_wo_x.get(p).map(describe)
            ),
        ));
    }
    vs
}

// ---------------- Part B: direct-connection reference ----------------

pub const REF_PROGRAMS: &[&str] = &[
    "simple", "ext", "named", "pipelined", "bare-sync-then-batch", "sync-between", "describe", "close-reparse", "flush-wait", "big", "txn-ext", "copy", "ext-copy", "ext-copy-fail", "ext-copy-in-txn", "copy-sync-mid", "copy-then-bigrows", "error-in-batch",
];

pub fn norm(m: &Msg) -> Msg {
    // the backend connection id echoed in rows is not part of the comparison
    if m.code == b'D' {
        let cols = m.row_cols();
        if let Some(Some(c0)) = cols.first() {
            if c0.starts_with(b"conn=") {
                let mut cs: Vec<Vec<u8>> = cols.iter().map(|c| c.clone().unwrap_or_default()).collect();
                cs[0] = b"conn=?".to_vec();
                let refs: Vec<&[u8]> = cs.iter().map(|c| c.as_slice()).collect();
                let enc = wire::data_row(&refs);
                return wire::split_stream(&enc).0.remove(0);
            }
        }
    }
    if m.code == b'd' && m.body.starts_with(b"conn=") {
        let s = String::from_utf8_lossy(&m.body).to_string();
        let rest = s.splitn(2, '\t').nth(1).unwrap_or("").to_string();
        return Msg { code: b'd', body: format!("conn=?\t{}", rest).into_bytes() };
    }
    m.clone()
}

pub fn ref_program(prog: &str) -> Script {
    let t = |j: usize, k: usize| tag(0, j, k);
    let pbe = |name: &str, sql: &str, tg: &str| {
        let mut b = wire::parse(name, &format!("{} /*{}*/", sql, tg), &[]);
        b.extend(wire::bind("", name, &[], &[Some(tg.as_bytes().to_vec())], &[]));
        b.extend(wire::execute("", 0));
        b
    };
    let mut s = Script::new("c0").connect("alice", "db", Some("alicepw"));
    match prog {
        "simple" => {
            s = s.q(&format!("SELECT 1 /*{}*/", t(0, 0))).q(&format!("SELECT 2; SELECT 3 /*{}*/", t(1, 0))).q("").q(&format!("SELECT ERR! /*{}*/", t(2, 0)));
        }
        "ext" => {
            let mut b = pbe("", "SELECT 1", &t(0, 0));
            b.extend(wire::sync());
            s = s.send_z(b.clone(), "P B E S").send_z(b, "P B E S");
        }
        "named" => {
            let mut b = pbe("a", "SELECT 1", &t(0, 0));
            b.extend(wire::sync());
            let mut b2 = wire::bind("", "a", &[], &[Some(t(1, 0).into_bytes())], &[]);
            b2.extend(wire::execute("", 0));
            b2.extend(wire::sync());
            s = s.send_z(b, "P(a) B E S").send_z(b2.clone(), "B(a) E S").send_z(b2, "B(a) E S");
        }
        "pipelined" => {
            let mut b1 = pbe("", "SELECT 1", &t(0, 0));
            b1.extend(wire::sync());
            let mut b2 = pbe("", "SELECT 2", &t(1, 0));
            b2.extend(wire::sync());
            let mut both = b1.clone();
            both.extend(b2);
            s = s.send(both, "P B E S P B E S (one write)");
            s.z += 2;
            s = s.wait_z();
        }
        "bare-sync-then-batch" => {
            let mut b = pbe("", "SELECT 1", &t(1, 0));
            b.extend(wire::sync());
            s = s.send_z(wire::sync(), "S (empty batch)").send_z(b.clone(), "P B E S").send_z(b, "P B E S");
        }
        "sync-between" => {
            let mut b = pbe("", "SELECT 1", &t(0, 0));
            b.extend(wire::sync());
            b.extend(wire::sync());
            s = s.send(b, "P B E S S");
            s.z += 2;
            s = s.wait_z().q(&format!("SELECT 2 /*{}*/", t(1, 0)));
        }
        "describe" => {
            let mut b = wire::parse("d1", &format!("SELECT 1 /*{}*/", t(0, 0)), &[23]);
            b.extend(wire::describe(b'S', "d1"));
            b.extend(wire::sync());
            let mut b2 = wire::bind("p1", "d1", &[], &[Some(t(1, 0).into_bytes())], &[]);
            b2.extend(wire::describe(b'P', "p1"));
            b2.extend(wire::execute("p1", 0));
            b2.extend(wire::sync());
            s = s.send_z(b, "P(d1) D(S d1) S").send_z(b2, "B D(P) E S");
        }
        "close-reparse" => {
            let mut b = pbe("c1", "SELECT 1", &t(0, 0));
            b.extend(wire::sync());
            let mut c = wire::close(b'S', "c1");
            c.extend(wire::sync());
            let mut b3 = pbe("c1", "SELECT 2", &t(2, 0));
            b3.extend(wire::sync());
            s = s.send_z(b, "P(c1) B E S").send_z(c, "C(S c1) S").send_z(b3, "P(c1)' B E S");
        }
        "flush-wait" => {
            // a client that waits for the answer to Flush before it sends Sync
            let mut b = pbe("", "SELECT 1", &t(0, 0));
            b.extend(wire::flush());
            s = s.send(b, "P B E H").wait(Cond::CodeOrClosed(b'C', 1)).send_z(wire::sync(), "S");
        }
        "big" => {
            s = s.q(&format!("SELECT big /*{} rows=5 size=3000*/", t(0, 0))).q(&format!("COPY t TO STDOUT /*{} rows=4 size=5000*/", t(1, 0)));
        }
        "txn-ext" => {
            let mut b = pbe("", "SELECT 1", &t(0, 1));
            b.extend(wire::sync());
            s = s.q(&format!("BEGIN /*{}*/", t(0, 0))).send_z(b, "P B E S").q(&format!("SELECT ERR! /*{}*/", t(0, 2))).q(&format!("SELECT 1 /*{}*/", t(0, 3))).q(&format!("ROLLBACK /*{}*/", t(0, 4)));
        }
        "copy" => {
            s = s
                .send(wire::query(&format!("COPY t FROM STDIN /*{}*/", t(0, 0))), "Q COPY")
                .wait(Cond::CodeOrClosed(b'G', 1))
                .send(wire::copy_data(b"1\n"), "d")
                .send(wire::copy_data(b"2\n"), "d")
                .send_z(wire::copy_done(), "c")
                .q(&format!("SELECT 1 /*{}*/", t(1, 0)));
        }
        // COPY FROM STDIN started over the extended protocol, the way libpq does it: Parse Bind Execute Sync
        // at once (the server ignores that Sync while the COPY is in progress), then CopyData, CopyDone
        // and a Sync of its own, which is what brings the ReadyForQuery
        "ext-copy" | "ext-copy-fail" | "ext-copy-in-txn" => {
            let mut b = wire::parse("", &format!("COPY t FROM STDIN /*{}*/", t(0, 0)), &[]);
            b.extend(wire::bind("", "", &[], &[], &[]));
            b.extend(wire::execute("", 0));
            b.extend(wire::sync());
            if prog == "ext-copy-in-txn" {
                s = s.q(&format!("BEGIN /*{}*/", t(0, 9)));
            }
            s = s.send(b, "P B E S (COPY)").wait(Cond::CodeOrClosed(b'G', 1)).send(wire::copy_data(b"1\n"), "d").send(wire::copy_data(b"2\n"), "d");
            let mut end = if prog == "ext-copy-fail" { wire::copy_fail("changed my mind") } else { wire::copy_done() };
            end.extend(wire::sync());
            s = s.send_z(end, "c/f S");
            if prog == "ext-copy-in-txn" {
                s = s.q(&format!("COMMIT /*{}*/", t(0, 8)));
            }
            s = s.q(&format!("SELECT 1 /*{}*/", t(1, 0)));
        }
        // a Sync (which the server ignores and nobody answers) in the middle of COPY IN, with CopyData still
        // below the pooler's forwarding threshold before and after it
        "copy-sync-mid" => {
            s = s
                .send(wire::query(&format!("COPY t FROM STDIN /*{}*/", t(0, 0))), "Q COPY")
                .wait(Cond::CodeOrClosed(b'G', 1))
                .send(wire::copy_data(b"1\n"), "d")
                .send(wire::copy_data(b"2\n"), "d")
                .send(wire::sync(), "S (mid-COPY)")
                .send(wire::copy_data(b"3\n"), "d")
                .send_z(wire::copy_done(), "c")
                .q(&format!("SELECT 1 /*{}*/", t(1, 0)));
        }
        // one simple Query: a SET, a COPY FROM STDIN, then a SELECT whose rows exceed the pooler's relay chunk:
        // the reply to CopyDone is CommandComplete, the rows in several chunks, CommandComplete, ReadyForQuery
        "copy-then-bigrows" => {
            s = s
                .send(
                    wire::query(&format!("SET work_mem TO '8MB'; COPY t FROM STDIN /*{}*/; SELECT big /*{} rows=5 size=4000*/", t(0, 0), t(0, 1))),
                    "Q SET; COPY; SELECT big",
                )
                .wait(Cond::CodeOrClosed(b'G', 1))
                .send(wire::copy_data(b"1\n"), "d")
                .send_z(wire::copy_done(), "c")
                .q(&format!("SELECT 1 /*{}*/", t(1, 0)))
                .q(&format!("SELECT 2 /*{}*/", t(2, 0)));
        }
        "error-in-batch" => {
            let mut b = pbe("", "SELECT ERR!", &t(0, 0));
            b.extend(pbe("", "SELECT 2", &t(0, 1)));
            b.extend(wire::sync());
            s = s.send_z(b, "P B E(err) P B E S").q(&format!("SELECT 3 /*{}*/", t(1, 0)));
        }
        _ => panic!("unknown program"),
    }
    s.terminate()
}

pub fn ref_scenario(prog: &str, cache: usize, gate: Gate) -> Scenario {
    let mut pool = PoolCfg::simple("db", "transaction", 1, 1, 0);
    pool.extra = format!("prepared_statements_cache_size = {}\n", cache);
    let cfg = Cfg::one(pool);
    let mut servers = cfg.servers();
    servers[0].gate = gate.clone();
    Scenario {
        name: format!("C03 ref prog={} cache={} gate={:?}", prog, cache, gate),
        toml: cfg.toml(),
        alt_tomls: vec![],
        servers,
        actors: vec![ref_program(prog).actor()],
        opts: Opts::default(),
        meta: serde_json::Value::Null,
    }
}

/// Generated extended-protocol programs (the C08 generator) relayed without statement caching in
/// session mode, where named statements legitimately persist on the held server connection.
pub fn gen_session_scenario(g: &str) -> Scenario {
    let mut pool = PoolCfg::simple("db", "session", 1, 1, 0);
    pool.extra = "prepared_statements_cache_size = 0\n".to_string();
    let cfg = Cfg::one(pool);
    let servers = cfg.servers();
    Scenario {
        name: format!("C03 ref prog=gen-session cache=0 gate=Off id={}", g),
        toml: cfg.toml(),
        alt_tomls: vec![],
        servers,
        actors: vec![super::c08::program(0, g).actor()],
        opts: Opts::default(),
        meta: serde_json::Value::Null,
    }
}

/// The same generated programs with statement caching on (transaction mode): what the pooler may answer
/// itself is bounded (Parse / Close of statements); everything else must be relayed.
pub fn gen_cached_scenario(g: &str) -> Scenario {
    let mut pool = PoolCfg::simple("db", "transaction", 1, 1, 0);
    pool.extra = "prepared_statements_cache_size = 8\n".to_string();
    let cfg = Cfg::one(pool);
    let servers = cfg.servers();
    Scenario {
        name: format!("C03 ref prog=gen-cached cache=8 gate=Off id={}", g),
        toml: cfg.toml(),
        alt_tomls: vec![],
        servers,
        actors: vec![super::c08::program(0, g).actor()],
        opts: Opts::default(),
        meta: serde_json::Value::Null,
    }
}

/// Compare what client `c` received after login with the direct-connection reference.
/// `caching`: ParseComplete/CloseComplete may be synthesised (and reordered within a batch).
pub fn compare_with_reference(log: &[crate::mockpg::Entry], c: usize, caching: bool, oracle: &str, ctx: &str) -> Vec<Violation> {
    let mut vs = Vec::new();
    let sent: Vec<Msg> = client_sent_msgs(log, c);
    let expected: Vec<Msg> = reference_replies(&sent, "pgcat").iter().map(norm).collect();
    let got: Vec<Msg> = after_login(log, c).iter().map(norm).collect();
    let seg = |v: &[Msg]| -> Vec<Vec<Msg>> {
        let mut out = vec![vec![]];
        for m in v {
            out.last_mut().unwrap().push(m.clone());
            if m.code == b'Z' {
                out.push(vec![]);
            }
        }
        if out.last().map(|l| l.is_empty()).unwrap_or(false) {
            out.pop();
        }
        out
    };
    let (es, gs) = (seg(&expected), seg(&got));
    if es.len() != gs.len() {
        vs.push(v(
            oracle,
            format!("{}:segments:{}", oracle, ctx),
            format!("client {} received {} ReadyForQuery-terminated replies, a direct connection gives {}", c, gs.len(), es.len()),
        ));
    }
    for (i, (e, g)) in es.iter().zip(gs.iter()).enumerate() {
        let strip = |v: &Vec<Msg>| -> Vec<Msg> { v.iter().filter(|m| !(caching && (m.code == b'1' || m.code == b'3'))).cloned().collect() };
        let count = |v: &Vec<Msg>, code: u8| v.iter().filter(|m| m.code == code).count();
        // after an ErrorResponse the server skips the rest of the batch, while the pooler may already
        // have synthesised completions for later Parse/Close messages: counts are compared only for
        // error-free replies (documented difference: pooler-synthesised ParseComplete/CloseComplete)
        let has_err = e.iter().any(|m| m.code == b'E');
        let counts_differ = !(caching && has_err) && (count(e, b'1') != count(g, b'1') || count(e, b'3') != count(g, b'3'));
        if strip(e) != strip(g) || counts_differ {
            vs.push(v(
                oracle,
                format!("{}:reply-differs:{}", oracle, ctx),
                format!(
                    "client {} reply #{} differs from a direct connection:\n    pooler : {}\n    direct : {}",
                    c,
                    i,
                    g.iter().map(describe).collect::<Vec<_>>().join(" "),
                    e.iter().map(describe).collect::<Vec<_>>().join(" ")
                ),
            ));
            break;
        }
    }
    vs
}

pub fn ref_oracle(sc: &Scenario, out: &Outcome) -> Vec<Violation> {
    let log = &out.log;
    let prog = sc.name.split_whitespace().find_map(|w| w.strip_prefix("prog=")).unwrap_or("").to_string();
    let caching = !sc.name.contains("cache=0");
    let ctx = format!("prog={}:cache={}", prog, if caching { "on" } else { "off" });
    if out.blocked {
        return vec![v("C03.ref-blocked", format!("C03.ref-blocked:{}", ctx), format!("client never got its reply: {}", blocked_note(log).unwrap_or_default()))];
    }
    let mut vs = compare_with_reference(log, 0, caching, "C03.ref", &ctx);
    if caching && !out.blocked {
        // with statement caching only Parse and Close of *statements* may be answered by the pooler: every
        // Bind, Execute and every Describe / Close of a *portal* must reach the server, in order
        let portal_ops = |msgs: Vec<Msg>| -> Vec<(u8, String)> {
            let mut v = Vec::new();
            for m in msgs {
                match m.code {
                    b'B' => {
                        if let Some((portal, _, _)) = wire::decode_bind(&m) {
                            v.push((b'B', portal));
                        }
                    }
                    b'E' => {
                        if let Some((portal, _)) = m.cstr_at(0) {
                            v.push((b'E', portal));
                        }
                    }
                    b'D' | b'C' => {
                        if let Some((kind, name)) = wire::decode_kind_name(&m) {
                            if kind == b'P' {
                                v.push((m.code, name));
                            }
                        }
                    }
                    _ => {}
                }
            }
            v
        };
        let sent = portal_ops(client_sent_msgs(log, 0));
        let recv = portal_ops(
            log.iter()
                .filter_map(|e| match &e.rec {
                    Rec::BRecv { msg, .. } => Some(msg.clone()),
                    _ => None,
                })
                .collect(),
        );
        // (a batch the server rejected half-way may leave later messages unsent: compared only when the reference has no error)
        let sent_msgs: Vec<Msg> = client_sent_msgs(log, 0);
        let ref_has_error = reference_replies(&sent_msgs, "pgcat").iter().any(|m| m.code == b'E');
        if !ref_has_error && sent != recv {
            let p = sent.iter().zip(recv.iter()).position(|(a, b)| a != b).unwrap_or(sent.len().min(recv.len()));
            vs.push(v(
                "C03.ref-server-bytes",
                format!("C03.ref-server-bytes:portal-ops:{}", ctx),
                format!(
                    "client sent {} Bind/Execute/portal Describe/portal Close messages, the server received {}; first difference at {}: sent {:?} received {:?}",
                    sent.len(),
                    recv.len(),
                    p,
                    sent.get(p).map(|(c, n)| format!("{}({})", *c as char, n)),
                    recv.get(p).map(|(c, n)| format!("{}({})", *c as char, n))
                ),
            ));
        }
    }
    // backend side: with caching off the server receives exactly the client's messages
    if !caching {
        // an empty batch (a Sync with nothing before it) is answered by the pooler itself and has no
        // server-side effect: not judged
        let mut sent: Vec<Msg> = Vec::new();
        let mut prev: u8 = b'S';
        for m in client_sent_msgs(log, 0).into_iter().filter(|m| m.code != b'X') {
            if m.code == b'S' && (prev == b'S' || prev == b'Q') {
                prev = m.code;
                continue;
            }
            prev = m.code;
            sent.push(m);
        }
        let recv: Vec<Msg> = log
            .iter()
            .filter_map(|e| match &e.rec {
                Rec::BRecv { msg, .. } if !is_control(msg) && msg.code != b'X' => Some(msg.clone()),
                _ => None,
            })
            .collect();
        if sent != recv {
            let p = sent.iter().zip(recv.iter()).position(|(a, b)| a != b).unwrap_or(sent.len().min(recv.len()));
            vs.push(v(
                "C03.ref-server-bytes",
                format!("C03.ref-server-bytes:{}", ctx),
                format!("backend received {} messages, client sent {}; first difference at {}: sent {:?} got {:?}", recv.len(), sent.len(), p, sent.get(p).map(describe), recv.get(p).map(describe)),
            ));
        }
    }
    vs
}

pub fn oracle(sc: &Scenario, out: &Outcome) -> Vec<Violation> {
    if sc.name.starts_with("C03 raw") {
        raw_oracle(sc, out)
    } else {
        ref_oracle(sc, out)
    }
}

pub fn build(tier: &str) -> SimCheck {
    let thorough = tier == "thorough";
    let mut scenarios = Vec::new();
    for case in raw_cases(thorough) {
        for (ri, reply) in case.replies.iter().enumerate() {
            if ri + 1 == case.replies.len() && case.replies.len() > 1 {
                continue; // the trailing "after" reply is only cut in thorough
            }
            for cuts in cuts_for(reply, thorough) {
                scenarios.push(raw_scenario(&case, ri, &cuts, None));
            }
        }
        // client request cut at every byte offset of the first request (quick: a few offsets)
        let first_len = case.requests[0].0.len();
        let offs: Vec<usize> = if thorough { (1..first_len).collect() } else { vec![1, 4, 5, 6, first_len - 1] };
        for off in offs {
            if off < first_len {
                scenarios.push(raw_scenario(&case, 0, &[], Some((0, off))));
            }
        }
        if thorough {
            for (i, (b, _)) in case.requests.iter().enumerate().skip(1) {
                for off in [1usize, 4, 5, b.len() / 2, b.len().saturating_sub(1)] {
                    if off > 0 && off < b.len() {
                        scenarios.push(raw_scenario(&case, 0, &[], Some((i, off))));
                    }
                }
            }
        }
    }
    for case in copyin_seq_cases(thorough) {
        scenarios.push(raw_scenario(&case, 0, &[], None));
    }
    for case in threshold_cases() {
        scenarios.push(raw_scenario(&case, 0, &[], None));
        // and delivered in two TCP writes, cut in the middle of the big message
        let mid = case.replies[0].len() / 2;
        scenarios.push(raw_scenario(&case, 0, &[mid], None));
    }
    for g in super::c08::gen_programs(if thorough { 3 } else { 2 }) {
        scenarios.push(gen_session_scenario(&g));
        scenarios.push(gen_cached_scenario(&g));
    }
    for prog in REF_PROGRAMS {
        for cache in [0usize, 8] {
            // without statement caching, named statements do not survive the end of a transaction
            // in transaction mode (documented pooler limitation): those programs need caching
            if cache == 0 && ["named", "describe", "close-reparse"].contains(prog) {
                continue;
            }
            scenarios.push(ref_scenario(prog, cache, Gate::Off));
            if thorough || ["named", "big", "pipelined"].contains(prog) {
                scenarios.push(ref_scenario(prog, cache, Gate::PerMessage));
            }
        }
    }
    SimCheck {
        scenarios,
        oracle: Box::new(oracle),
        bound: 0,
        limits: Limits { max_wall_s: if thorough { 1500.0 } else { 150.0 }, ..Default::default() },
        rule: "raw: reply stream catalogue (row sizes around the 8196-byte thresholds, empty/multi-statement, Notice/ParameterStatus, mid-stream error, COPY out/in/fail with chunk sizes around 8196, every kind of message (notice, error, parameter status, wide row description) carrying the buffer across the threshold before / between / after rows, COPY in with every sequence of <= 3 (thorough 4) client chunks over 6 sizes below/at/above the threshold, SELECT+COPY in one Query, portal suspension, in-transaction status) x every single cut of the server stream at message boundaries +-0..5 bytes and at the thresholds x client-request cuts; ref: 13 request shapes (simple, extended, named, pipelined, bare Sync then batch, Sync Sync, Describe, Close+re-Parse, Flush, big, COPY, error in batch) x caching on/off x gating, compared with the direct-connection reference; gen-session: every generated extended-protocol batch program of C08 (<= 2, thorough 3 items) in session mode without statement caching, replies and server-received messages compared with the client's, and once more with statement caching on (every Bind / Execute / portal Describe / portal Close must reach the server); distinct = distinct histories".into(),
        assumptions: vec![
            "TLS framing not exercised (generic Client<S,T> relay code is the same)".into(),
            "reference backend run without a pooler defines the direct-connection reply".into(),
        ],
    }
}
