//! C11 — malformed or hostile client bytes hurt only the sender.

use super::c02::dirty_reasons;
use super::common::*;
use super::SimCheck;
use crate::cfg::{env, Cfg, PoolCfg, Script};
use crate::explore::{Limits, Violation};
use crate::mockpg::Rec;
use crate::wire;
use crate::world::{CloseKind, Cond, Opts, Outcome, Scenario, Step};

pub const STATES: &[&str] = &["pre-startup", "awaiting-password", "idle", "in-transaction", "mid-batch", "copy-in", "copy-in-data", "session-held"];
/// extra state, only with prepared_statements_cache_size = 1: COPY in progress while the statement `h1` is known
/// to the client but no longer on the server (evicted by `h2`), so that binding it makes the pooler prepare it
/// out of band
pub const EVICTED_STATE: &str = "copy-in-evicted";

pub fn templates() -> Vec<(&'static str, Vec<u8>, bool)> {
    // (name, bytes, typed?)
    vec![
        ("Startup", wire::startup(&[("user", "alice"), ("database", "db")]), false),
        ("SSLRequest", wire::ssl_request(), false),
        ("CancelRequest", wire::cancel_request(1, 2), false),
        ("p", wire::password_message(b"md5aaaaaaaaaaaaaaaaaaaaaaaaaaaaaaaa\0"), true),
        ("Q", wire::query("SELECT 7 /*c0.t7.s0*/"), true),
        ("Q-nonutf8", wire::msg(b'Q', b"SELECT ERR!RAW \xff\xfe\xc3\x28 /*c0.t7.s3*/\0"), true),
        ("P", wire::parse("h1", "SELECT $1 /*c0.t7.s1*/", &[23]), true),
        // statement and portal names that are not UTF-8, used consistently: well-formed for PostgreSQL
        ("PB-nonutf8", {
            let mut b = wire::msg(b'P', b"\xff\xfe\0SELECT 7 /*c0.t7.s4*/\0\0\0");
            b.extend(wire::sync());
            b.extend(wire::msg(b'B', b"\xfd\xfc\0\xff\xfe\0\0\0\0\0\0\0"));
            b.extend(wire::execute("", 0));
            b
        }, true),
        ("B", wire::bind("", "h1", &[1], &[Some(vec![0, 0, 0, 7])], &[0]), true),
        ("D", wire::describe(b'S', "h1"), true),
        ("E", wire::execute("", 0), true),
        ("C", wire::close(b'S', "h1"), true),
        ("S", wire::sync(), true),
        ("H", wire::flush(), true),
        ("d", wire::copy_data(b"x c0.t7.s2\n"), true),
        ("c", wire::copy_done(), true),
        ("f", wire::copy_fail("m"), true),
        ("X", wire::terminate(), true),
    ]
}

/// All mutations of one template: (mutation name, bytes)
pub fn mutations(name: &str, m: &[u8], typed: bool, thorough: bool) -> Vec<(String, Vec<u8>)> {
    let mut out: Vec<(String, Vec<u8>)> = vec![("wellformed".into(), m.to_vec())];
    let lo = if typed { 1 } else { 0 };
    // truncation
    let offs: Vec<usize> = if thorough { (1..m.len()).collect() } else { vec![1, 5, m.len() - 1] };
    let mut seen = std::collections::BTreeSet::new();
    for k in offs {
        if k > 0 && k < m.len() && seen.insert(k) {
            out.push((format!("trunc{}", k), m[..k].to_vec()));
        }
    }
    // length field
    let true_len = i32::from_be_bytes(m[lo..lo + 4].try_into().unwrap());
    for (ln, v) in [("len-1", -1i32), ("len0", 0), ("len3", 3), ("len4", 4), ("len-true-1", true_len - 1), ("len-true+1", true_len + 1), ("len-true+64", true_len + 64), ("len-1M", 1 << 20)] {
        if !thorough && ["len3", "len-true+1"].contains(&ln) {
            // quick: one value below the header size and one just past the true length are enough
            continue;
        }
        let mut b = m.to_vec();
        b[lo..lo + 4].copy_from_slice(&v.to_be_bytes());
        out.push((ln.to_string(), b));
    }
    if typed {
        // NULs stripped from the body, length fixed
        let body: Vec<u8> = m[5..].iter().cloned().filter(|x| *x != 0).collect();
        if body.len() != m.len() - 5 {
            out.push(("no-nuls".into(), wire::msg(m[0], &body)));
        }
        // unknown type bytes
        for (tn, t) in [("type00", 0x00u8), ("type-qm", b'?'), ("typeFF", 0xFF)] {
            let mut b = m.to_vec();
            b[0] = t;
            out.push((format!("{}-{}", tn, name), b));
        }
    } else {
        // other protocol codes
        for (cn, c) in [("code0", 0i32), ("code-v2", 131072), ("code-junk", 0x7fff_0001)] {
            let mut b = m.to_vec();
            if b.len() >= 8 {
                b[4..8].copy_from_slice(&c.to_be_bytes());
                out.push((cn.to_string(), b));
            }
        }
    }
    // counts / parameter lengths
    if name == "P" {
        for (cn, c) in [("nparams-1", -1i16), ("nparams32767", 32767)] {
            let mut b = m.to_vec();
            let p = b.len() - 6;
            b[p..p + 2].copy_from_slice(&c.to_be_bytes());
            out.push((cn.to_string(), b));
        }
    }
    if name == "B" {
        // body: portal\0 stmt\0 nfmt(2) fmt(2) nparams(2) len(4) val(4) nres(2) res(2)
        let base = 5 + 1 + 3;
        for (cn, off, c) in [("nfmt-1", base, -1i16), ("nfmt32767", base, 32767), ("nvals-1", base + 4, -1), ("nvals32767", base + 4, 32767), ("nres-1", base + 14, -1), ("nres32767", base + 14, 32767)] {
            let mut b = m.to_vec();
            b[off..off + 2].copy_from_slice(&c.to_be_bytes());
            out.push((cn.to_string(), b));
        }
        for (cn, c) in [("plen-1", -1i32), ("plen-2", -2), ("plen-huge", 0x7fff_fff0)] {
            let mut b = m.to_vec();
            b[base + 6..base + 10].copy_from_slice(&c.to_be_bytes());
            out.push((cn.to_string(), b));
        }
    }
    // a buffered extended-protocol message only has an effect once a Sync flushes the batch
    if ["P", "B", "D", "E", "C", "PB-nonutf8"].contains(&name) {
        let flushed: Vec<(String, Vec<u8>)> = out
            .iter()
            .map(|(mn, b)| {
                let mut v = b.clone();
                v.extend(wire::sync());
                (format!("{}+S", mn), v)
            })
            .collect();
        out.extend(flushed);
    }
    out
}

fn state_is_idle(state: &str) -> bool {
    matches!(state, "pre-startup" | "awaiting-password" | "idle")
}

pub fn scenario(replica_only: bool, cache: usize, state: &str, tname: &str, mname: &str, bytes: &[u8], hold: bool) -> Scenario {
    scenario_follow(replica_only, cache, state, tname, mname, bytes, hold, "none")
}

/// `follow`: what the attacker does after the hostile message, before leaving — whatever the hostile
/// message left behind in the pooler (a buffered byte, a flag) meets ordinary traffic.
#[allow(clippy::too_many_arguments)]
pub fn scenario_follow(replica_only: bool, cache: usize, state: &str, tname: &str, mname: &str, bytes: &[u8], hold: bool, follow: &str) -> Scenario {
    let mode = if state == "session-held" { "session" } else { "transaction" };
    let mut pool = if replica_only { PoolCfg::simple("db", mode, 1, 0, 1) } else { PoolCfg::simple("db", mode, 1, 1, 0) };
    pool.extra = format!("prepared_statements_cache_size = {}\n", cache);
    let cfg = Cfg::one(pool);
    let servers = cfg.servers();
    let mut a = Script::new("attacker");
    match state {
        "pre-startup" => a = a.step(Step::Open),
        "awaiting-password" => a = a.step(Step::Open).send(wire::startup(&[("user", "alice"), ("database", "db")]), "startup").wait(Cond::Msgs(1)),
        "idle" => a = a.connect("alice", "db", Some("alicepw")),
        "in-transaction" => a = a.connect("alice", "db", Some("alicepw")).q(&format!("BEGIN /*{}*/", tag(0, 0, 0))),
        "mid-batch" => {
            let mut b = wire::parse("", &format!("SELECT 1 /*{}*/", tag(0, 0, 0)), &[]);
            b.extend(wire::bind("", "", &[], &[Some(tag(0, 0, 1).into_bytes())], &[]));
            a = a.connect("alice", "db", Some("alicepw")).q(&format!("BEGIN /*{}*/", tag(0, 0, 2))).send(b, "P B");
        }
        "copy-in" => {
            a = a
                .connect("alice", "db", Some("alicepw"))
                .send(wire::query(&format!("COPY t FROM STDIN /*{}*/", tag(0, 0, 0))), "Q COPY")
                .wait(Cond::CodeOrClosed(b'G', 1));
        }
        "copy-in-data" => {
            // COPY in progress with one small CopyData the pooler still holds in its buffer
            a = a
                .connect("alice", "db", Some("alicepw"))
                .send(wire::query(&format!("COPY t FROM STDIN /*{}*/", tag(0, 0, 0))), "Q COPY")
                .wait(Cond::CodeOrClosed(b'G', 1))
                .send(wire::copy_data(format!("row {}\n", tag(0, 0, 1)).as_bytes()), "d");
        }
        "copy-in-evicted" => {
            let mut p1 = wire::parse("h1", "SELECT $1 /*c0.t7.s1*/", &[23]);
            p1.extend(wire::sync());
            let mut p2 = wire::parse("h2", "SELECT 'other' /*c0.t7.s5*/", &[]);
            p2.extend(wire::sync());
            a = a
                .connect("alice", "db", Some("alicepw"))
                .send_z(p1, "P(h1) S")
                .send_z(p2, "P(h2) S")
                .send(wire::query(&format!("COPY t FROM STDIN /*{}*/", tag(0, 0, 0))), "Q COPY")
                .wait(Cond::CodeOrClosed(b'G', 1));
        }
        "session-held" => a = a.connect("alice", "db", Some("alicepw")).q(&format!("SELECT 1 /*{}*/", tag(0, 0, 0))),
        _ => panic!("state"),
    }
    let hostile_idx = a.steps.len();
    a = a.send(bytes.to_vec(), &format!("HOSTILE {} {}", tname, mname));
    if hold && state_is_idle(state) {
        // stay connected while the canary runs a transaction
        a = a.wait(Cond::ActorAt(1, 4));
    }
    // (the attacker never waits for an answer it may not get: everything is pipelined, then it lingers
    // for half a second of virtual time and leaves)
    match follow {
        "none" => {}
        "copy-big" => {
            // a COPY whose single CopyData is larger than the pooler's 8196-byte forwarding threshold, ended by a query
            a = a
                .send(wire::query(&format!("COPY t FROM STDIN /*{}*/", tag(0, 5, 0))), "Q COPY (follow-up)")
                .send(wire::copy_data(&vec![b'z'; 9000]), "d[9000]")
                .send(wire::query(&format!("ROLLBACK /*{}*/", tag(0, 5, 1))), "Q ROLLBACK")
                .send(wire::query(&format!("SELECT 'poison' /*{}*/", tag(0, 5, 2))), "Q SELECT 'poison'")
                .wait(Cond::TimeMs(500))
                .send(wire::terminate(), "X");
        }
        "ext" => {
            let mut b = wire::parse("", &format!("SELECT 'follow' /*{}*/", tag(0, 5, 0)), &[]);
            b.extend(wire::bind("", "", &[], &[Some(tag(0, 5, 1).into_bytes())], &[]));
            b.extend(wire::execute("", 0));
            b.extend(wire::sync());
            a = a.send(b, "P B E S (follow-up)").send(wire::query(&format!("SELECT 'follow2' /*{}*/", tag(0, 6, 0))), "Q").wait(Cond::TimeMs(500)).send(wire::terminate(), "X");
        }
        "queries" => {
            a = a
                .send(wire::query(&format!("SELECT 'follow' /*{}*/", tag(0, 5, 0))), "Q (follow-up)")
                .send(wire::query(&format!("COMMIT /*{}*/", tag(0, 5, 1))), "Q COMMIT")
                .wait(Cond::TimeMs(500))
                .send(wire::terminate(), "X");
        }
        _ => panic!("follow"),
    }
    a = a.close(CloseKind::HardDrop);
    let mut batch = wire::parse("k1", &format!("SELECT 'k' /*{}*/", tag(1, 3, 0)), &[]);
    batch.extend(wire::bind("", "k1", &[], &[Some(tag(1, 3, 1).into_bytes())], &[]));
    batch.extend(wire::execute("", 0));
    batch.extend(wire::sync());
    let canary = Script::new("canary")
        .connect("alice", "db", Some("alicepw"))
        .wait(Cond::ActorAt(0, hostile_idx + 1))
        .q(&format!("SELECT 'during' /*{}*/", tag(1, 1, 0)))
        .wait(Cond::ActorsDone(vec![0]))
        .q(&format!("BEGIN /*{}*/", tag(1, 2, 0)))
        .q(&format!("SELECT 'after' /*{}*/", tag(1, 2, 1)))
        .q(&format!("COMMIT /*{}*/", tag(1, 2, 2)))
        .send_z(batch, "P(k1) B E S")
        .terminate();
    Scenario {
        name: format!(
            "C11 pool={} cache={} state={} msg={} mut={} hold={}{}",
            if replica_only { "replica-only" } else { "primary" },
            cache,
            state,
            tname,
            mname,
            hold,
            if follow == "none" { String::new() } else { format!(" follow={}", follow) }
        ),
        toml: cfg.toml(),
        alt_tomls: vec![],
        servers,
        actors: vec![a.actor(), canary.actor(), env("final", vec![Step::Wait(Cond::ActorsDone(vec![0, 1])), Step::Probe])],
        opts: Opts::default(),
        meta: serde_json::json!({"state": state, "msg": tname, "mut": mname, "hold": hold, "follow": follow}),
    }
}

/// `idle_client_in_transaction_timeout` is set and the attacker, inside a transaction, sends its bytes and
/// then stays connected and silent: the timeout has to end the transaction whatever arrived (a whole
/// message, a truncated one, garbage), so that the canary is served well before the attacker leaves.
pub fn scenario_idle_timeout(tname: &str, mname: &str, bytes: &[u8]) -> Scenario {
    let mut sc = scenario_follow(false, 0, "in-transaction", tname, mname, bytes, false, "none");
    sc.toml = sc.toml.replacen("idle_client_in_transaction_timeout = 0", "idle_client_in_transaction_timeout = 1000", 1);
    assert!(sc.toml.contains("idle_client_in_transaction_timeout = 1000"));
    // the attacker stays for ten seconds after its bytes instead of leaving at once
    let n = sc.actors[0].steps.len();
    sc.actors[0].steps.insert(n - 1, Step::Wait(Cond::TimeMs(10_000)));
    // the canary does not wait for the attacker to leave
    for st in sc.actors[1].steps.iter_mut() {
        if matches!(st, Step::Wait(Cond::ActorsDone(_))) {
            *st = Step::Wait(Cond::TimeMs(0));
        }
    }
    sc.name = format!("{} idle-timeout=1000", sc.name);
    sc.meta["idle_timeout"] = serde_json::json!(true);
    sc.opts.horizon_ms = 60_000;
    sc
}

/// The same with `cleanup_server_connections = false`: the operator gave up RESET / DEALLOCATE at check-in,
/// not the rule that a connection left in a transaction, in COPY or with unread data is never handed on.
#[allow(clippy::too_many_arguments)]
pub fn scenario_no_cleanup(cache: usize, state: &str, tname: &str, mname: &str, bytes: &[u8], follow: &str) -> Scenario {
    let mut sc = scenario_follow(false, cache, state, tname, mname, bytes, false, follow);
    sc.toml = sc.toml.replacen("prepared_statements_cache_size", "cleanup_server_connections = false\nprepared_statements_cache_size", 1);
    assert!(sc.toml.contains("cleanup_server_connections = false"));
    sc.name = format!("{} cleanup=off", sc.name);
    sc.meta["cleanup_off"] = serde_json::json!(true);
    sc
}

pub fn oracle(sc: &Scenario, out: &Outcome) -> Vec<Violation> {
    let log = &out.log;
    let mut vs = Vec::new();
    let state = sc.meta["state"].as_str().unwrap();
    let tname = sc.meta["msg"].as_str().unwrap();
    let mname = sc.meta["mut"].as_str().unwrap();
    let mclass = scrub(mname);
    let follow = sc.meta["follow"].as_str().unwrap_or("none");
    let ctx = if follow == "none" { format!("state={}:msg={}:mut={}", state, tname, mclass) } else { format!("state={}:msg={}:mut={}:follow={}", state, tname, mclass, follow) };
    let cleanup_off = sc.meta.get("cleanup_off").is_some();
    let ctx = if cleanup_off { format!("{}:cleanup=off", ctx) } else { ctx };
    // the pooler and every other task stay alive
    for p in has_panic(log) {
        if !p.contains("actor=0 ") {
            vs.push(v("C11.foreign-panic", format!("C11.foreign-panic:{}", ctx), format!("a task other than the attacker's panicked: {}", p)));
        }
    }
    if out.blocked {
        vs.push(v("C11.blocked", format!("C11.blocked:{}", ctx), format!("another client is blocked forever: {}", blocked_note(log).unwrap_or_default())));
        return vs;
    }
    if sc.meta.get("idle_timeout").is_some() {
        // the canary's last reply arrives before the attacker's own departure at 10 s
        let last = log.iter().rev().find(|e| matches!(&e.rec, Rec::CRecv { c: 1, msg } if msg.code == b'Z')).map(|e| e.t_ms).unwrap_or(u64::MAX);
        let rows = client_msgs(log, 1).iter().filter(|(_, m)| m.code == b'D').count();
        if last > 9_000 || rows < 3 {
            vs.push(v(
                "C11.idle-timeout-defeated",
                format!("C11.idle-timeout-defeated:msg={}:mut={}", tname, mclass),
                format!("idle_client_in_transaction_timeout = 1000 ms, the attacker sat in its transaction for 10 s: the canary got {} rows, its last reply at {} ms", rows, last),
            ));
        }
        return vs;
    }
    // canary: its own, complete results
    let msgs = client_msgs(log, 1);
    for (seq, m) in &msgs {
        if let Some(t) = msg_tag(m) {
            if t.c != 1 {
                vs.push(v("C11.foreign-data", format!("C11.foreign-data:{}", ctx), format!("canary received at seq {} data of the attacker: {}", seq, describe(m))));
            }
        }
    }
    let rows: Vec<String> = msgs.iter().filter(|(_, m)| m.code == b'D').filter_map(|(_, m)| m.row_cols().get(2).cloned().flatten()).map(|b| String::from_utf8_lossy(&b).to_string()).collect();
    let errors: Vec<String> = msgs.iter().filter(|(_, m)| m.code == b'E').map(|(_, m)| m.err_field(b'M').unwrap_or_default()).collect();
    let want_after = ["SELECT 'after'", "SELECT 'k'"];
    for w in want_after {
        if !rows.iter().any(|r| r.starts_with(w)) {
            vs.push(v(
                "C11.canary-after",
                format!("C11.canary-after:{}", ctx),
                format!("after the attacker was gone the canary's `{}` did not return its row; rows {:?}, errors {:?}", w, rows, errors),
            ));
        }
    }
    if state_is_idle(state) {
        // an attacker that legitimately holds nothing must not delay or fail anybody
        if !rows.iter().any(|r| r.starts_with("SELECT 'during'")) {
            vs.push(v(
                "C11.canary-during",
                format!("C11.canary-during:{}", ctx),
                format!("while the attacker ({}) was connected the canary's transaction was not served; errors {:?}", state, errors),
            ));
        }
        if !errors.is_empty() {
            vs.push(v("C11.canary-error", format!("C11.canary-error:{}", ctx), format!("canary got errors {:?}", errors)));
        }
        // no virtual time may pass: nobody waited for a timer
        if out.final_ms > 2500 {
            vs.push(v("C11.delay", format!("C11.delay:{}", ctx), format!("the run needed {} ms of virtual time: a client had to wait for a timeout", out.final_ms)));
        }
    } else {
        let server_errs: Vec<&String> = errors.iter().filter(|e| !e.contains("could not get connection")).collect();
        if !server_errs.is_empty() {
            vs.push(v("C11.canary-error", format!("C11.canary-error:{}", ctx), format!("canary got errors {:?}", server_errs)));
        }
    }
    // canary finds clean connections
    for conn in conn_ids(log) {
        let mut last: Option<usize> = None;
        for (seq, msg, st) in brecv_of(log, conn) {
            if is_control(msg) {
                continue;
            }
            if let Some(t) = msg_tag(msg) {
                if last == Some(0) && t.c == 1 {
                    // with statement caching on, the pooler's own PGCAT_n statements stay on the connection by design
                    let caching = sc.name.split_whitespace().find_map(|w| w.strip_prefix("cache=")).map(|c| c != "0").unwrap_or(false);
                    let mut r = dirty_reasons(st, caching);
                    if cleanup_off {
                        // session state the operator chose not to reset
                        r.retain(|x| !(x.starts_with("guc:") || x == "role" || x == "named-statement" || x == "sql-prepared"));
                    }
                    if !r.is_empty() {
                        vs.push(v("C11.dirty-handover", format!("C11.dirty-handover:{}:{}", r.join("+"), ctx), format!("canary got conn {} at seq {} in state {:?}", conn, seq, r)));
                    }
                }
                last = Some(t.c);
            }
        }
    }
    // nothing pinned, lost or banned afterwards
    if let Some(data) = log.iter().rev().find_map(|e| if let Rec::Probe { data } = &e.rec { Some(data.clone()) } else { None }) {
        let j: serde_json::Value = serde_json::from_str(&data).unwrap();
        for p in j["pools"].as_array().unwrap() {
            if p["connections"] != p["idle"] {
                vs.push(v("C11.pinned", format!("C11.pinned:{}", ctx), format!("a server connection is still checked out after everybody left: {}", p)));
            }
        }
        if !j["bans"].as_array().unwrap().is_empty() {
            vs.push(v("C11.banned", format!("C11.banned:{}", ctx), format!("a server was banned because of client bytes: {}", j["bans"])));
        }
        if j["csm"].as_u64().unwrap() != 0 {
            vs.push(v("C11.csm", format!("C11.csm:{}", ctx), "client_server_map not empty at the end".into()));
        }
    }
    vs
}

pub fn build(tier: &str) -> SimCheck {
    let thorough = tier == "thorough";
    let mut scenarios = Vec::new();
    for replica_only in [false, true] {
        for state in STATES {
            for (tname, bytes, typed) in templates() {
                for (mname, mb) in mutations(tname, &bytes, typed, thorough) {
                    // well-formed messages only where they are out of order
                    if mname == "wellformed" {
                        let in_order = match (*state, tname) {
                            ("pre-startup", "Startup") | ("pre-startup", "SSLRequest") | ("pre-startup", "CancelRequest") => true,
                            ("awaiting-password", "p") => true,
                            ("idle", "Q") | ("idle", "X") | ("in-transaction", "Q") | ("in-transaction", "X") | ("session-held", "Q") | ("session-held", "X") => true,
                            ("copy-in", "d") | ("copy-in", "c") | ("copy-in", "f") => true,
                            _ => false,
                        };
                        if in_order {
                            continue;
                        }
                    }
                    if replica_only && !thorough {
                        // quick: the replica-only pool only for the states that hold a server
                        let base = mname.trim_end_matches("+S");
                        if state_is_idle(state) || !(["len-1", "len0", "len-1M", "len-true-1", "wellformed"].contains(&base) || base.starts_with("typeFF")) {
                            continue;
                        }
                    }
                    scenarios.push(scenario(replica_only, 0, state, tname, &mname, &mb, false));
                    // ordinary traffic after the hostile message (out-of-order well-formed messages and unknown types)
                    if !replica_only && !["pre-startup", "awaiting-password"].contains(state) && (mname == "wellformed" || mname.starts_with("typeFF") || (thorough && mname.starts_with("len-true"))) {
                        for follow in ["copy-big", "ext", "queries"] {
                            for cache in [0usize, 8] {
                                // quick: each kind of follow-up traffic with one cache setting
                                if !thorough && (cache == 8) != (follow != "copy-big") {
                                    continue;
                                }
                                scenarios.push(scenario_follow(false, cache, state, tname, &mname, &mb, false, follow));
                            }
                        }
                    }
                    if state_is_idle(state) && (thorough || mname.starts_with("len") || mname == "wellformed" || mname.starts_with("trunc5") || mname.starts_with("type")) {
                        scenarios.push(scenario(replica_only, 0, state, tname, &mname, &mb, true));
                    }
                    // statement caching on: the pooler itself decodes more of the traffic (server errors, P/B/D/C bodies)
                    if ["Q-nonutf8", "P", "B", "D", "C", "PB-nonutf8"].contains(&tname) && (thorough || mname == "wellformed" || mname.starts_with("len") || mname == "no-nuls" || mname.starts_with("n") || mname.starts_with("plen")) {
                        scenarios.push(scenario(replica_only, 8, state, tname, &mname, &mb, false));
                    }
                }
            }
        }
    }
    // idle_client_in_transaction_timeout against whole, truncated and garbage messages
    for (tname, bytes, typed) in templates() {
        if !["Q", "P", "B", "S-sync", "garbage"].iter().any(|x| tname.starts_with(x)) {
            continue;
        }
        for (mname, mb) in mutations(tname, &bytes, typed, thorough) {
            if mname == "wellformed" || mname.starts_with("trunc") || mname.starts_with("len") {
                scenarios.push(scenario_idle_timeout(tname, &mname, &mb));
            }
        }
    }
    // cleanup_server_connections = false, for the states in which the attacker holds a server
    for state in ["in-transaction", "mid-batch", "copy-in", "copy-in-data"] {
        for (tname, bytes, typed) in templates() {
            for (mname, mb) in mutations(tname, &bytes, typed, thorough) {
                if !(thorough || mname == "wellformed" || mname.starts_with("len") || mname.starts_with("type") || mname.starts_with("trunc5") || mname == "no-nuls") {
                    continue;
                }
                for cache in [0usize, 8] {
                    if cache == 8 && !["B", "D", "P", "C"].contains(&tname) {
                        continue;
                    }
                    scenarios.push(scenario_no_cleanup(cache, state, tname, &mname, &mb, "none"));
                }
            }
        }
    }
    for (tname, bytes, typed) in templates() {
        if !["B", "D", "P"].contains(&tname) {
            continue;
        }
        for (mname, mb) in mutations(tname, &bytes, typed, false) {
            if mname == "wellformed+S" || mname == "wellformed" || (thorough && mname.ends_with("+S")) {
                scenarios.push(scenario_follow(false, 1, EVICTED_STATE, tname, &mname, &mb, false, "none"));
                scenarios.push(scenario_follow(false, 1, EVICTED_STATE, tname, &mname, &mb, false, "queries"));
            }
        }
    }
    SimCheck {
        scenarios,
        oracle: Box::new(oracle),
        bound: if thorough { 1 } else { 0 },
        limits: Limits { max_wall_s: if thorough { 2400.0 } else { 150.0 }, ..Default::default() },
        rule: "scenario = pool (single primary / single replica, pool_size 1) x attacker protocol state (pre-startup, awaiting password, idle, in transaction, mid extended batch, COPY IN, COPY IN with buffered CopyData, COPY IN with a statement known to the client but evicted from the server, session-mode held) x 17 message templates (incl. a Parse/Bind pair with non-UTF-8 statement and portal names) x mutations (truncation at byte offsets, 8 length-field values, NULs stripped, counts -1/32767, parameter length -1/huge, unknown type bytes, other startup codes, well-formed but out of order; every mutation of Parse/Bind/Describe/Execute/Close also followed by a Sync that flushes the batch) x attacker stays connected or leaves, or first carries on with ordinary traffic (a COPY with a 9000-byte CopyData ended by a query, an extended batch, simple queries); the server-holding states also with cleanup_server_connections = false; the in-transaction state also with idle_client_in_transaction_timeout set and the attacker staying silent after its bytes; a canary shares the pool and runs a transaction during and after; then a pooler-state probe".into(),
        assumptions: vec!["length fields capped at 1 MiB (memory exhaustion not decided)".into(), "a panic confined to the attacker's own task is a disconnect, allowed by the property".into()],
    }
}
