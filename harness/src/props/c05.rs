//! C05 (sim part): the tagged statement reaches only a backend of the required role.

use super::common::*;
use super::SimCheck;
use crate::cfg::{Cfg, PoolCfg, Script};
use crate::explore::{Limits, Violation};
use crate::mockpg::{Accept, Rec};
use crate::wire;
use crate::world::{Opts, Outcome, Scenario};

fn stmt(sql: &str, tg: &str, expect: &str) -> String {
    format!("{} /*{} expect={}*/", sql, tg, expect)
}

fn ext(sql: &str) -> Vec<u8> {
    let mut b = wire::parse("", sql, &[]);
    b.extend(wire::bind("", "", &[], &[], &[]));
    b.extend(wire::execute("", 0));
    b.extend(wire::sync());
    b
}

pub fn scenario(prog: &str, primary_reads: bool, default_role: &str) -> Scenario {
    let mut pool = PoolCfg::simple("db", "transaction", 2, 1, 2);
    pool.extra = format!(
        "query_parser_enabled = true\nquery_parser_read_write_splitting = true\nprimary_reads_enabled = {}\ndefault_role = \"{}\"\n",
        primary_reads, default_role
    );
    let mut cfg = Cfg::one(pool);
    cfg.connect_timeout = 2000;
    let mut servers = cfg.servers();
    let read_exp = if primary_reads { "any" } else { "replica" };
    let mut s = Script::new("c0").connect("alice", "db", Some("alicepw"));
    let mut t = 0usize;
    let mut tg = || {
        t += 1;
        tag(0, t, 0)
    };
    match prog {
        "auto" => {
            s = s.q(&stmt("SELECT * FROM t1 WHERE a = 1", &tg(), read_exp));
            s = s.q(&stmt("INSERT INTO t1 VALUES (1)", &tg(), "primary"));
            s = s.q(&stmt("SELECT * FROM t1", &tg(), read_exp));
            s = s.send_z(ext(&stmt("SELECT * FROM t1 WHERE b = 2", &tg(), read_exp)), "P B E S read");
            s = s.send_z(ext(&stmt("UPDATE t1 SET a = 2", &tg(), "primary")), "P B E S write");
            s = s.q(&stmt("SELECT * FROM t1 FOR UPDATE", &tg(), "primary"));
            s = s.q(&stmt("WITH c AS (INSERT INTO t1 VALUES (1) RETURNING *) SELECT * FROM c", &tg(), "primary"));
            s = s.q(&stmt("BEGIN", &tg(), "primary"));
            s = s.q(&stmt("SELECT * FROM t1", &tg(), "primary"));
            s = s.q(&stmt("COMMIT", &tg(), "primary"));
            s = s.q(&stmt("SELECT * FROM t1", &tg(), read_exp));
            s = s.q(&stmt("SELECT 1; DELETE FROM t1", &tg(), "primary"));
            s = s.q(&stmt("SELECT * FROM t1", &tg(), read_exp));
        }
        "ext-seq" => {
            // every transaction over the extended protocol: the decision is recomputed for each one
            s = s.send_z(ext(&stmt("SELECT * FROM t1 WHERE b = 1", &tg(), read_exp)), "P B E S read");
            s = s.send_z(ext(&stmt("INSERT INTO t1 VALUES (1)", &tg(), "primary")), "P B E S write");
            s = s.send_z(ext(&stmt("SELECT * FROM t1 WHERE b = 2", &tg(), read_exp)), "P B E S read");
            s = s.send_z(ext(&stmt("UPDATE t1 SET a = 2", &tg(), "primary")), "P B E S write");
            s = s.send_z(ext(&stmt("SELECT * FROM t1 WHERE b = 3", &tg(), read_exp)), "P B E S read");
            s = s.q(&stmt("SELECT * FROM t1", &tg(), read_exp));
        }
        "ext-batch-mixed" => {
            // a write and a read prepared and run in one batch (one implicit transaction): the primary
            let batch = |a: &str, b: &str| {
                let mut x = wire::parse("", a, &[]);
                x.extend(wire::bind("", "", &[], &[], &[]));
                x.extend(wire::execute("", 0));
                x.extend(wire::parse("", b, &[]));
                x.extend(wire::bind("", "", &[], &[], &[]));
                x.extend(wire::execute("", 0));
                x.extend(wire::sync());
                x
            };
            s = s.send_z(batch(&stmt("INSERT INTO t1 VALUES (1)", &tg(), "primary"), &stmt("SELECT * FROM t1", &tg(), "primary")), "P(write) B E P(read) B E S");
            s = s.send_z(batch(&stmt("SELECT * FROM t1", &tg(), "primary"), &stmt("DELETE FROM t1", &tg(), "primary")), "P(read) B E P(write) B E S");
            s = s.q(&stmt("SELECT * FROM t1", &tg(), read_exp));
        }
        "named-write-rebind" => {
            // a write prepared under a name in one transaction, bound again after reads moved the session
            let mut p = wire::parse("w", &stmt("INSERT INTO t1 VALUES (7)", &tg(), "primary"), &[]);
            p.extend(wire::sync());
            s = s.send_z(p, "P(w, write) S");
            s = s.q(&stmt("SELECT * FROM t1", &tg(), read_exp));
            let mut b = wire::bind("", "w", &[], &[], &[]);
            b.extend(wire::execute("", 0));
            b.extend(wire::sync());
            s = s.send_z(b.clone(), "B(w) E S");
            s = s.q(&stmt("SELECT * FROM t1", &tg(), read_exp));
            s = s.send_z(b, "B(w) E S");
        }
        "role-primary" => {
            s = s.q("SET SERVER ROLE TO 'primary'");
            s = s.q(&stmt("SELECT * FROM t1", &tg(), "primary"));
            s = s.send_z(ext(&stmt("SELECT * FROM t1 WHERE b = 2", &tg(), "primary")), "P B E S read");
            s = s.q(&stmt("SELECT * FROM t1", &tg(), "primary"));
            s = s.q("SET SERVER ROLE TO 'auto'");
            s = s.q(&stmt("SELECT * FROM t1", &tg(), read_exp));
        }
        "role-replica" => {
            s = s.q("SET SERVER ROLE TO 'replica'");
            s = s.q(&stmt("SELECT * FROM t1", &tg(), "replica"));
            s = s.q(&stmt("INSERT INTO t1 VALUES (1)", &tg(), "replica"));
            s = s.send_z(ext(&stmt("INSERT INTO t1 VALUES (2)", &tg(), "replica")), "P B E S write");
            s = s.q(&stmt("SELECT * FROM t1", &tg(), "replica"));
            s = s.q("SET SERVER ROLE TO 'default'");
            s = s.q(&stmt("INSERT INTO t1 VALUES (3)", &tg(), "primary"));
        }
        "role-any" => {
            s = s.q("SET SERVER ROLE TO 'any'");
            s = s.q(&stmt("INSERT INTO t1 VALUES (1)", &tg(), "any"));
            s = s.send_z(ext(&stmt("SELECT * FROM t1", &tg(), "any")), "P B E S");
        }
        "replicas-down" => {
            for sv in servers.iter_mut() {
                if sv.addr.contains("-r") {
                    sv.accept = Accept::Refuse;
                }
            }
            s = s.q("SET SERVER ROLE TO 'replica'");
            s = s.q(&stmt("SELECT * FROM t1", &tg(), "none"));
            s = s.q("SET SERVER ROLE TO 'primary'");
            s = s.q(&stmt("SELECT * FROM t1", &tg(), "primary"));
        }
        "primary-down" => {
            for sv in servers.iter_mut() {
                if sv.addr.contains("-p") {
                    sv.accept = Accept::Refuse;
                }
            }
            s = s.q("SET SERVER ROLE TO 'primary'");
            s = s.q(&stmt("SELECT * FROM t1", &tg(), "none"));
            s = s.q(&stmt("INSERT INTO t1 VALUES (1)", &tg(), "none"));
            s = s.q("SET SERVER ROLE TO 'replica'");
            s = s.q(&stmt("SELECT * FROM t1", &tg(), "replica"));
        }
        _ => panic!("unknown program"),
    }
    s = s.terminate();
    Scenario {
        name: format!("C05 prog={} primary_reads={} default_role={}", prog, primary_reads, default_role),
        toml: cfg.toml(),
        alt_tomls: vec![],
        servers,
        actors: vec![s.actor()],
        opts: Opts { explore_perms: true, ..Opts::default() },
        meta: serde_json::Value::Null,
    }
}

/// Parser off: every statement of a fresh session goes to the pool's default role, in every session.
pub fn default_role_scenario(default_role: &str) -> Scenario {
    let mut pool = PoolCfg::simple("db", "transaction", 2, 1, 2);
    pool.extra = format!("query_parser_enabled = false\ndefault_role = \"{}\"\n", default_role);
    let cfg = Cfg::one(pool);
    let servers = cfg.servers();
    let mut actors = Vec::new();
    for c in 0..2usize {
        let mut s = Script::new(&format!("c{}", c));
        if c == 1 {
            s = s.wait(crate::world::Cond::ActorsDone(vec![0]));
        }
        s = s.connect("alice", "db", Some("alicepw"));
        for j in 0..3 {
            s = s.q(&stmt(&format!("INSERT INTO t1 VALUES ({})", j), &tag(c, j, 0), default_role));
            s = s.q(&stmt("SELECT * FROM t1", &tag(c, j + 10, 0), default_role));
        }
        s = s.send_z(ext(&stmt("UPDATE t1 SET a = 2", &tag(c, 20, 0), default_role)), "P B E S");
        actors.push(s.terminate().actor());
    }
    Scenario {
        name: format!("C05 prog=default-role-fresh-session primary_reads=- default_role={}", default_role),
        toml: cfg.toml(),
        alt_tomls: vec![],
        servers,
        actors,
        opts: Opts { explore_perms: true, ..Opts::default() },
        meta: serde_json::Value::Null,
    }
}

/// A RELOAD changes the pool's default_role while a client is connected: a client that chose its role itself
/// keeps it (also when its choice equals the old default), a statement whose role was inferred keeps that role
/// (also when a PAUSE held it across the reload), a client that never chose follows the new default.
pub fn reload_role_scenario(kind: &str) -> Scenario {
    let (parser, old_default, new_default) = match kind {
        "explicit-other" => (true, "any", "replica"),
        "explicit-same" => (false, "primary", "replica"),
        "paused-write" => (true, "primary", "replica"),
        "follows-default" => (false, "primary", "replica"),
        _ => panic!("kind"),
    };
    let mk = |d: &str| {
        let mut pool = PoolCfg::simple("db", "transaction", 2, 1, 2);
        pool.extra = format!("query_parser_enabled = {p}\nquery_parser_read_write_splitting = {p}\nprimary_reads_enabled = false\ndefault_role = \"{d}\"\n", p = parser, d = d);
        Cfg::one(pool)
    };
    let cfg = mk(old_default);
    let servers = cfg.servers();
    let mut t = 0usize;
    let mut tg = || {
        t += 1;
        tag(0, t, 0)
    };
    let mut s = Script::new("c0").connect("alice", "db", Some("alicepw"));
    let reload: Vec<crate::world::Step>;
    use crate::world::{Cond, Step};
    match kind {
        "explicit-other" | "explicit-same" => {
            s = s.q("SET SERVER ROLE TO 'primary'");
            s = s.q(&stmt("SELECT * FROM t1", &tg(), "primary"));
            let at = s.steps.len();
            s = s.wait(Cond::ActorsDone(vec![1]));
            s = s.q(&stmt("SELECT * FROM t1 WHERE a = 2", &tg(), "primary"));
            s = s.q(&stmt("INSERT INTO t1 VALUES (2)", &tg(), "primary"));
            reload = vec![Step::Wait(Cond::ActorAt(0, at)), Step::WriteConfig(0), Step::Admin("RELOAD".into())];
        }
        "paused-write" => {
            s = s.q(&stmt("SELECT * FROM t1", &tg(), "replica"));
            let at = s.steps.len();
            s = s.wait(Cond::ActorAt(1, 2)).send(wire::query(&stmt("INSERT INTO t1 VALUES (3)", &tg(), "primary")), "Q INSERT (while paused)");
            s.z += 1;
            s = s.wait_z();
            s = s.q(&stmt("SELECT * FROM t1 WHERE a = 3", &tg(), "replica"));
            reload = vec![
                Step::Wait(Cond::ActorAt(0, at)),
                Step::Admin("PAUSE".into()),
                Step::Wait(Cond::ActorAt(0, at + 2)),
                Step::WriteConfig(0),
                Step::Admin("RELOAD".into()),
                Step::Admin("RESUME".into()),
            ];
        }
        _ => {
            s = s.q(&stmt("SELECT * FROM t1", &tg(), "primary"));
            let at = s.steps.len();
            s = s.wait(Cond::ActorsDone(vec![1]));
            s = s.q(&stmt("SELECT * FROM t1 WHERE a = 2", &tg(), "replica"));
            reload = vec![Step::Wait(Cond::ActorAt(0, at)), Step::WriteConfig(0), Step::Admin("RELOAD".into())];
        }
    }
    s = s.terminate();
    Scenario {
        name: format!("C05 prog=reload-default-role-{} primary_reads=false default_role={}->{}", kind, old_default, new_default),
        toml: cfg.toml(),
        alt_tomls: vec![mk(new_default).toml()],
        servers,
        actors: vec![s.actor(), crate::cfg::env("reload", reload)],
        opts: Opts { explore_perms: true, ..Opts::default() },
        meta: serde_json::Value::Null,
    }
}

/// Activity-based routing on (a rarely used option): once the database is past its init delay, a message
/// that starts a transaction and goes on with a read still opens the transaction on the primary.
pub fn activity_scenario() -> Scenario {
    let mut pool = PoolCfg::simple("db", "transaction", 2, 1, 2);
    pool.extra = "query_parser_enabled = true\nquery_parser_read_write_splitting = true\nprimary_reads_enabled = false\ndefault_role = \"any\"\ndb_activity_based_routing = true\ndb_activity_init_delay = 100\n".into();
    let cfg = Cfg::one(pool);
    let servers = cfg.servers();
    let mut t = 0usize;
    let mut tg = || {
        t += 1;
        tag(0, t, 0)
    };
    let mut s = Script::new("c0").connect("alice", "db", Some("alicepw"));
    // first contact starts the init delay (everything goes to the primary meanwhile: not judged)
    s = s.q("SELECT * FROM warmup");
    s = s.step(crate::world::Step::Advance(500));
    s = s.q(&stmt("BEGIN; SELECT * FROM t9", &tg(), "primary"));
    s = s.q(&stmt("UPDATE t9 SET a = 2", &tg(), "primary"));
    s = s.q(&stmt("COMMIT", &tg(), "primary"));
    s = s.q(&stmt("INSERT INTO t8 VALUES (1)", &tg(), "primary"));
    s = s.q(&stmt("BEGIN; SELECT 104", &tg(), "primary"));
    s = s.q(&stmt("ROLLBACK", &tg(), "primary"));
    s = s.terminate();
    Scenario {
        name: "C05 prog=activity-begin-then-read primary_reads=false default_role=any".to_string(),
        toml: cfg.toml(),
        alt_tomls: vec![],
        servers,
        actors: vec![s.actor()],
        opts: Opts { explore_perms: true, ..Opts::default() },
        meta: serde_json::Value::Null,
    }
}

fn role_of_server(addr: &str) -> &'static str {
    // pg-s<shard>-<p|r><idx>
    match addr.split('-').nth(2).and_then(|x| x.chars().next()) {
        Some('p') => "primary",
        Some('r') => "replica",
        _ => "?",
    }
}

pub fn oracle(sc: &Scenario, out: &Outcome) -> Vec<Violation> {
    let log = &out.log;
    let mut vs = Vec::new();
    let prog = sc.name.split_whitespace().find_map(|w| w.strip_prefix("prog=")).unwrap_or("");
    let ctx = format!("prog={}", prog);
    if out.blocked {
        vs.push(v("C05.blocked", format!("C05.blocked:{}", ctx), blocked_note(log).unwrap_or_default()));
    }
    let mut executed: Vec<String> = Vec::new();
    for e in log {
        // any message carrying the statement text counts (Query text or Parse text)
        if let Rec::BRecv { conn, msg, .. } = &e.rec {
            if msg.code != b'Q' && msg.code != b'P' {
                continue;
            }
            let text = String::from_utf8_lossy(&msg.body).to_string();
            let exp = match text.find("expect=") {
                Some(p) => text[p + 7..].chars().take_while(|c| c.is_ascii_alphanumeric()).collect::<String>(),
                None => continue,
            };
            executed.push(text.clone());
            let srv = conn_server(log, *conn);
            let got = role_of_server(&srv);
            let ok = match exp.as_str() {
                "any" => true,
                "none" => false,
                e => e == got,
            };
            if !ok {
                vs.push(v(
                    "C05.wrong-role",
                    format!("C05.wrong-role:{}:want={}:got={}:{}", ctx, exp, got, msg.code as char),
                    format!("{} required role {} but reached server {} ({})", describe(msg), exp, srv, got),
                ));
            }
        }
    }
    // statements expected to run must have reached some server; "none" ones must have produced an error
    let mut sent_expect: Vec<String> = Vec::new();
    for e in log {
        if let Rec::CSend { bytes, .. } = &e.rec {
            let t = String::from_utf8_lossy(bytes).to_string();
            if let Some(p) = t.find("expect=") {
                let exp: String = t[p + 7..].chars().take_while(|c| c.is_ascii_alphanumeric()).collect();
                sent_expect.push(exp);
            }
        }
    }
    let should_run = sent_expect.iter().filter(|e| e.as_str() != "none").count();
    if executed.len() < should_run && !out.blocked {
        vs.push(v("C05.not-executed", format!("C05.not-executed:{}", ctx), format!("{} statements should have reached a server, {} did", should_run, executed.len())));
    }
    let nones = sent_expect.iter().filter(|e| e.as_str() == "none").count();
    let errs = client_msgs(log, 0).iter().filter(|(_, m)| m.code == b'E').count();
    if errs < nones {
        vs.push(v("C05.no-refusal", format!("C05.no-refusal:{}", ctx), format!("{} statements had no usable server of the requested role but only {} errors were reported", nones, errs)));
    }
    vs
}

pub fn build(tier: &str) -> SimCheck {
    let thorough = tier == "thorough";
    let mut scenarios = Vec::new();
    for prog in ["auto", "ext-seq", "ext-batch-mixed", "named-write-rebind", "role-primary", "role-replica", "role-any", "replicas-down", "primary-down"] {
        for pr in [false, true] {
            let defaults: Vec<&str> = if thorough { vec!["any", "primary", "replica"] } else { vec!["any"] };
            for d in defaults {
                if d != "any" && prog == "role-replica" {
                    continue; // SET SERVER ROLE TO 'default' would legitimately pin writes elsewhere
                }
                scenarios.push(scenario(prog, pr, d));
            }
        }
    }
    for d in ["primary", "replica", "any"] {
        scenarios.push(default_role_scenario(d));
    }
    scenarios.push(activity_scenario());
    for kind in ["explicit-other", "explicit-same", "paused-write", "follows-default"] {
        scenarios.push(reload_role_scenario(kind));
    }
    SimCheck {
        scenarios,
        oracle: Box::new(oracle),
        bound: 1,
        limits: Limits::default(),
        rule: "sim: 1 primary + 2 replicas, 9 programs (inferred routing over simple and extended protocol incl. transactions and recomputation, a sequence of extended-protocol transactions alternating reads and writes, a write and a read in one batch in both orders, a named write statement bound again after reads, SET SERVER ROLE primary/replica/any then both protocols, all replicas down, primary down) x primary_reads on/off (x default_role in thorough), every candidate order (enumerated shuffle) with 1 deviation; plus parser off: two fresh sessions under default_role primary / replica / any; plus a RELOAD that changes default_role under a connected client (explicit role different from / equal to the old default, a write held by PAUSE across the reload, a client that never chose); plus db_activity_based_routing on: a message that starts a transaction and continues with a read".into(),
        assumptions: vec!["server role read off the labelled backend address".into()],
    }
}
