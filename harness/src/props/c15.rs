//! C15 — an accepted configuration is a servable configuration.

use super::common::*;
use super::SimCheck;
use crate::cfg::{env, Cfg, PoolCfg, Script, ShardCfg, UserCfg};
use crate::explore::{Limits, Violation};
use crate::mockpg::Rec;
use crate::world::{Cond, Opts, Outcome, Scenario, Step};

pub const SHARD_SETS: &[&[&str]] = &[
    &["0"],
    &["0", "1"],
    &["0", "1", "2"],
    &["1"],
    &["1", "2"],
    &["0", "2"],
    &["0", "00"],
    &["00"],
    &["-1", "0"],
    &["a"],
    &["0", "a"],
    &["2", "0", "1"],
    &["0", "1", "3"],
    &["0", "1", "10"],
    &["0", "1", "2", "3", "4", "5", "6", "7", "8", "9", "10"],
    &["10", "9", "8", "7", "6", "5", "4", "3", "2", "1", "0", "11"],
];
pub const LAYOUTS: &[&str] = &["p", "p+r", "r", "r+r", "p+p", "dup", "p+r+r"];
pub const DEFAULT_SHARDS: &[&str] = &["-", "shard_0", "shard_1", "shard_2", "shard_9", "random", "random_healthy", "junk"];
pub const DEFAULT_ROLES: &[&str] = &["-", "any", "primary", "replica", "junk", "Primary"];
pub const MISC: &[&str] = &["none", "no-password", "no-password-authquery", "bad-regex", "plugins-without-parser", "min-pool-too-big", "rw-split-without-parser", "two-users", "bad-sharding-key", "authquery-user-password-only", "authquery-query-only", "server-username-only", "server-password-only", "server-credentials"];

fn host(shard_key: &str, k: usize, role: &str) -> String {
    // the host name carries the numeric VALUE of the shard key when it has one
    match shard_key.parse::<i64>() {
        Ok(v) if v >= 0 => format!("pg-s{}-{}{}", v, &role[..1], k),
        _ => format!("pg-sx{}-{}{}", shard_key.replace('-', "m"), &role[..1], k),
    }
}

fn servers_for(shard_key: &str, layout: &str) -> Vec<(String, u16, String)> {
    let mk = |k: usize, role: &str| (host(shard_key, k, role), 5432u16, role.to_string());
    match layout {
        "p" => vec![mk(0, "primary")],
        "p+r" => vec![mk(0, "primary"), mk(0, "replica")],
        "r" => vec![mk(0, "replica")],
        "r+r" => vec![mk(0, "replica"), mk(1, "replica")],
        "p+p" => vec![mk(0, "primary"), mk(1, "primary")],
        "dup" => vec![mk(0, "primary"), mk(0, "replica"), mk(0, "replica")],
        "p+r+r" => vec![mk(0, "primary"), mk(0, "replica"), mk(1, "replica")],
        _ => panic!("layout"),
    }
}

/// Reference predicate: reasons why the configuration cannot be served (empty = servable).
pub fn unservable(shards: &[&str], layout: &str, default_shard: &str, default_role: &str, misc: &str) -> Vec<String> {
    let mut r = Vec::new();
    let n = shards.len();
    let vals: Vec<Option<usize>> = shards.iter().map(|s| s.parse::<usize>().ok()).collect();
    if vals.iter().any(|v| v.is_none()) {
        r.push("shard-id-not-a-number".into());
    } else {
        let mut v: Vec<usize> = vals.iter().map(|x| x.unwrap()).collect();
        v.sort();
        v.dedup();
        if v.len() != n {
            r.push("shard-ids-duplicate-by-value".into());
        } else if v != (0..n).collect::<Vec<_>>() {
            r.push("shard-ids-not-0..n-1".into());
        }
    }
    match default_shard {
        "-" | "random" | "random_healthy" => {}
        "junk" => r.push("default-shard-invalid".into()),
        s => {
            let k: usize = s.strip_prefix("shard_").unwrap().parse().unwrap();
            if k >= n {
                r.push("default-shard-out-of-range".into());
            }
        }
    }
    if default_role == "junk" {
        r.push("default-role-invalid".into());
    }
    if layout == "p+p" {
        r.push("two-primaries".into());
    }
    if layout == "dup" {
        r.push("duplicate-servers".into());
    }
    match misc {
        "no-password" => r.push("missing-credentials".into()),
        "bad-regex" => r.push("invalid-regex".into()),
        "plugins-without-parser" | "rw-split-without-parser" => r.push("needs-query-parser".into()),
        "min-pool-too-big" => r.push("min-pool-size".into()),
        "bad-sharding-key" => r.push("automatic-sharding-key-not-qualified".into()),
        _ => {}
    }
    r
}

/// One pool definition of the grammar (and the [general] lines its `misc` item needs).
fn pool_for(name: &str, shards: &[&str], layout: &str, default_shard: &str, default_role: &str, misc: &str) -> (PoolCfg, String) {
    let mut pool = PoolCfg::simple(name, "transaction", 2, 1, 0);
    pool.shards = shards.iter().map(|k| ShardCfg { id: k.to_string(), database: format!("dbk{}", k.replace('-', "m")), servers: servers_for(k, layout), mirrors: vec![] }).collect();
    let mut extra = String::new();
    if default_shard != "-" {
        extra.push_str(&format!("default_shard = \"{}\"\n", default_shard));
    }
    if default_role != "-" {
        extra.push_str(&format!("default_role = \"{}\"\n", default_role));
    }
    let mut general = String::new();
    match misc {
        "none" => {}
        "no-password" => pool.users[0].password = None,
        "no-password-authquery" => {
            pool.users[0].password = None;
            general = "auth_query = \"SELECT usename, passwd FROM pg_shadow WHERE usename='$1'\"\nauth_query_user = \"authuser\"\nauth_query_password = \"authpw\"\n".into();
        }
        // half-configured auth_query (the user has a password of its own): reject it or serve it
        "authquery-user-password-only" => extra.push_str("auth_query_user = \"authuser\"\nauth_query_password = \"authpw\"\n"),
        "authquery-query-only" => extra.push_str("auth_query = \"SELECT usename, passwd FROM pg_shadow WHERE usename='$1'\"\n"),
        "bad-regex" => extra.push_str("sharding_key_regex = '/\\* sharding_key: (\\d+ \\*/'\n"),
        "plugins-without-parser" => pool.plugins = format!("[pools.{}.plugins.table_access]\nenabled = true\ntables = [\"t\"]\n", name),
        // auth_query fully configured for this pool only
        "authquery-pool-level" => extra.push_str("auth_query = \"SELECT usename, passwd FROM pg_shadow WHERE usename='$1'\"\nauth_query_user = \"authuser\"\nauth_query_password = \"authpw\"\n"),
        "rw-split-without-parser" => extra.push_str("query_parser_read_write_splitting = true\n"),
        "min-pool-too-big" => pool.users[0].extra = "min_pool_size = 5\n".into(),
        // credentials of its own on the server side, fully or partly given
        "server-username-only" => pool.users[0].extra = "server_username = \"srv_alice\"\n".into(),
        "server-password-only" => pool.users[0].extra = "server_password = \"srvpw\"\n".into(),
        "server-credentials" => pool.users[0].extra = "server_username = \"srv_alice\"\nserver_password = \"srvpw\"\n".into(),
        "two-users" => pool.users.push(UserCfg { username: "bob".into(), password: Some("bobpw".into()), pool_size: 1, extra: String::new() }),
        "bad-sharding-key" => extra.push_str("query_parser_enabled = true\nautomatic_sharding_key = \"id\"\n"),
        _ => panic!("misc"),
    }
    pool.extra = extra;
    (pool, general)
}

pub fn scenario(shards: &[&str], layout: &str, default_shard: &str, default_role: &str, misc: &str) -> Scenario {
    let (pool, general) = pool_for("db", shards, layout, default_shard, default_role, misc);
    let mut cfg = Cfg::one(pool);
    cfg.general_extra = general;
    let mut servers = cfg.servers();
    if misc == "no-password-authquery" {
        for s in servers.iter_mut() {
            s.shadow.insert("alice".into(), format!("md5{}", crate::wire::md5_hex(b"alicepwalice")));
        }
    }
    let n = shards.len();
    // one transaction per (shard value 0..n-1, role present), one with no shard selected, then admin commands
    let roles: Vec<&str> = match layout {
        "p" => vec!["primary", "any"],
        "r" | "r+r" => vec!["replica", "any"],
        _ => vec!["primary", "replica", "any"],
    };
    let mut s = Script::new("c0").connect("alice", "db", Some("alicepw"));
    let mut t = 0;
    // a statement with nothing selected: default shard, default role (only when the default role has a server)
    let default_role_present = match default_role {
        "primary" => layout.contains('p'),
        "replica" => layout.contains('r'),
        _ => true,
    };
    if default_role_present {
        s = s.q(&format!("SELECT 0 /*{} expect=default*/", tag(0, t, 0)));
        t += 1;
    }
    for v in 0..n {
        s = s.q(&format!("SET SHARD TO '{}'", v));
        for role in &roles {
            s = s.q(&format!("SET SERVER ROLE TO '{}'", role));
            s = s.q(&format!("SELECT 1 /*{} expect={} role={}*/", tag(0, t, 0), v, role));
            t += 1;
        }
    }
    // a shard number that is not configured is refused and changes nothing: the client stays where it was
    if n > 0 {
        let last = n - 1;
        s = s.q(&format!("SET SHARD TO '{}'", last));
        s = s.q(&format!("SET SERVER ROLE TO '{}'", roles[0]));
        s = s.q(&format!("SET SHARD TO '{}'", n));
        s = s.q(&format!("SELECT 3 /*{} expect={} role={}*/", tag(0, t, 0), last, roles[0]));
        t += 1;
        s = s.q(&format!("SET SHARD TO '{}'", n + 5));
        s = s.q(&format!("SELECT 4 /*{} expect={} role={}*/", tag(0, t, 0), last, roles[0]));
        t += 1;
    }
    // after an idle gap longer than healthcheck_delay every checkout runs the health check first
    s = s.step(Step::Advance(31_000));
    for v in 0..n {
        s = s.q(&format!("SET SHARD TO '{}'", v));
        let role = roles[0];
        s = s.q(&format!("SET SERVER ROLE TO '{}'", role));
        s = s.q(&format!("SELECT 2 /*{} expect={} role={}*/", tag(0, t, 0), v, role));
        t += 1;
    }
    s = s.terminate();
    let first_host = servers_for(shards[0], layout)[0].0.clone();
    let admin = vec![
        Step::Wait(Cond::ActorsDone(vec![0])),
        Step::Admin("SHOW DATABASES".into()),
        Step::Admin("SHOW POOLS".into()),
        Step::Admin("SHOW STATS".into()),
        Step::Admin("SHOW SERVERS".into()),
        Step::Admin(format!("BAN {} 10", first_host)),
        Step::Admin("SHOW BANS".into()),
        Step::Admin(format!("UNBAN {}", first_host)),
        Step::Admin("SHOW CONFIG".into()),
        Step::Probe,
    ];
    let reasons = unservable(shards, layout, default_shard, default_role, misc);
    Scenario {
        name: format!("C15 shards={} layout={} default_shard={} default_role={} misc={}", shards.join(","), layout, default_shard, default_role, misc),
        toml: cfg.toml(),
        alt_tomls: vec![],
        servers,
        actors: vec![s.actor(), env("admin", admin)],
        opts: Opts { horizon_ms: 120_000, max_events: 800, ..Opts::default() },
        meta: serde_json::json!({"unservable": reasons, "n": n, "default_shard": default_shard, "misc": misc}),
    }
}

/// Two pools: the first one clean (or with auth_query configured for itself only), the second one carries
/// the item under test. A defect of any pool makes the file unservable; a clean second pool must be served.
pub fn scenario_two(first_misc: &str, second: (&[&str], &str, &str, &str, &str)) -> Scenario {
    let (shards, layout, ds, dr, misc) = second;
    let (first, g1) = pool_for("db", &["0"], "p+r", "-", "-", first_misc);
    let (second_pool, g2) = pool_for("db2", shards, layout, ds, dr, misc);
    let mut cfg = Cfg { pools: vec![first, second_pool], ..Default::default() };
    cfg.general_extra = format!("{}{}", g1, g2);
    let mut servers = cfg.servers();
    for s in servers.iter_mut() {
        s.shadow.insert("alice".into(), format!("md5{}", crate::wire::md5_hex(b"alicepwalice")));
    }
    let mut reasons = unservable(shards, layout, ds, dr, misc);
    reasons.extend(unservable(&["0"], "p+r", "-", "-", first_misc));
    let mut c0 = Script::new("c0").connect("alice", "db", Some("alicepw"));
    let mut c1 = Script::new("c1").connect("alice", "db2", Some("alicepw"));
    for t in 0..2 {
        c0 = c0.q(&format!("SELECT 0 /*{}*/", tag(0, t, 0)));
        c1 = c1.q(&format!("SELECT 0 /*{}*/", tag(1, t, 0)));
    }
    c0 = c0.step(Step::Advance(31_000)).q(&format!("SELECT 0 /*{}*/", tag(0, 2, 0))).terminate();
    c1 = c1.wait(Cond::ActorsDone(vec![0])).q(&format!("SELECT 0 /*{}*/", tag(1, 2, 0))).terminate();
    let admin = vec![Step::Wait(Cond::ActorsDone(vec![0, 1])), Step::Admin("SHOW DATABASES".into()), Step::Admin("SHOW POOLS".into()), Step::Admin("SHOW SERVERS".into()), Step::Probe];
    Scenario {
        name: format!("C15 two-pools first={} second=shards={} layout={} default_shard={} default_role={} misc={}", first_misc, shards.join(","), layout, ds, dr, misc),
        toml: cfg.toml(),
        alt_tomls: vec![],
        servers,
        actors: vec![c0.actor(), c1.actor(), env("admin", admin)],
        opts: Opts { horizon_ms: 120_000, max_events: 800, ..Opts::default() },
        meta: serde_json::json!({"unservable": reasons, "n": shards.len(), "default_shard": ds, "two_pools": true}),
    }
}

fn shard_of_host(addr: &str) -> Option<usize> {
    addr.strip_prefix("pg-s")?.split('-').next()?.parse().ok()
}

pub fn oracle(sc: &Scenario, out: &Outcome) -> Vec<Violation> {
    let log = &out.log;
    let mut vs = Vec::new();
    let reasons: Vec<String> = sc.meta["unservable"].as_array().unwrap().iter().map(|x| x.as_str().unwrap().to_string()).collect();
    let n = sc.meta["n"].as_u64().unwrap() as usize;
    let default_shard = sc.meta["default_shard"].as_str().unwrap();
    let rejected = out.init_error.as_ref().map(|e| !e.starts_with("PANIC")).unwrap_or(false);
    let startup_panic = out.init_error.as_ref().map(|e| e.starts_with("PANIC")).unwrap_or(false);
    if startup_panic {
        vs.push(v(
            "C15.startup-panic",
            format!("C15.startup-panic:{}", if reasons.is_empty() { "servable".to_string() } else { reasons.join("+") }),
            format!("the pooler panicked while loading this configuration: {}", out.init_error.clone().unwrap_or_default()),
        ));
        return vs;
    }
    if rejected {
        return vs; // rejecting is always safe
    }
    if !reasons.is_empty() {
        vs.push(v(
            "C15.accepted-unservable",
            format!("C15.accepted-unservable:{}", reasons.join("+")),
            format!("configuration was accepted although it cannot be served: {:?}", reasons),
        ));
        // behaviour below is still examined: it shows what the acceptance leads to
    }
    let key = if reasons.is_empty() { "servable".to_string() } else { reasons.join("+") };
    for p in has_panic(log) {
        vs.push(v("C15.panic", format!("C15.panic:{}", key), format!("a task panicked while serving the accepted configuration: {}", p)));
    }
    if out.blocked {
        vs.push(v("C15.blocked", format!("C15.blocked:{}", key), blocked_note(log).unwrap_or_default()));
    }
    if !reasons.is_empty() {
        return vs;
    }
    if sc.meta.get("two_pools").is_some() {
        // servable: each of the two clients gets all three of its statements run
        for c in 0..2usize {
            let ran = log.iter().filter(|e| matches!(&e.rec, Rec::BExec { sql, .. } if find_tag(sql.as_bytes()).map(|t| t.c == c).unwrap_or(false))).count();
            if ran != 3 {
                let errs: Vec<String> = client_msgs(log, c).iter().filter(|(_, m)| m.code == b'E').map(|(_, m)| m.err_field(b'M').unwrap_or_default()).collect();
                vs.push(v(
                    "C15.not-served",
                    format!("C15.not-served:two-pools:{}", if c == 0 { "first" } else { "second" }),
                    format!("client of the {} pool sent 3 statements, {} were executed; errors {:?}", if c == 0 { "first" } else { "second" }, ran, errs),
                ));
            }
        }
        return vs;
    }
    // the pooler logs in to the servers under the configured server-side name
    let want_user = match sc.meta.get("misc").and_then(|m| m.as_str()) {
        Some("server-username-only") | Some("server-credentials") => Some("srv_alice"),
        Some("server-password-only") | Some("none") | Some("two-users") => Some("alice"),
        _ => None,
    };
    if let Some(want) = want_user {
        for e in log {
            if let Rec::BStartup { conn, params } = &e.rec {
                let got = params.iter().find(|(k, _)| k == "user").map(|(_, v)| v.clone()).unwrap_or_default();
                if got != want && got != "bob" {
                    vs.push(v("C15.server-login", format!("C15.server-login:{}", sc.meta["misc"].as_str().unwrap_or("")), format!("backend conn {} was logged in to as {:?}, the configuration says {:?}", conn, got, want)));
                    break;
                }
            }
        }
    }
    // servable configuration: every addressed shard is served by that shard's servers
    for e in log {
        if let Rec::BExec { conn, sql, .. } = &e.rec {
            let exp = match sql.find("expect=") {
                Some(p) => sql[p + 7..].chars().take_while(|c| c.is_ascii_alphanumeric()).collect::<String>(),
                None => continue,
            };
            let srv = conn_server(log, *conn);
            let got = shard_of_host(&srv);
            let ok = match exp.as_str() {
                "default" => match default_shard {
                    "-" => got == Some(0),
                    "random" | "random_healthy" => got.map(|g| g < n).unwrap_or(false),
                    s => got == s.strip_prefix("shard_").and_then(|k| k.parse().ok()),
                },
                e => e.parse::<usize>().ok() == got,
            };
            if !ok {
                vs.push(v("C15.misrouted", "C15.misrouted".to_string(), format!("statement `{}` ran on {} (shard {:?})", sql, srv, got)));
            }
            let role = sql.split("role=").nth(1).map(|x| x.chars().take_while(|c| c.is_ascii_alphabetic()).collect::<String>());
            if let Some(role) = role {
                let is_p = srv.contains("-p");
                if (role == "primary" && !is_p) || (role == "replica" && is_p) {
                    vs.push(v("C15.wrong-role", "C15.wrong-role".to_string(), format!("statement `{}` ran on {}", sql, srv)));
                }
            }
        }
    }
    let sent = log.iter().filter(|e| matches!(&e.rec, Rec::CSend { c: 0, bytes } if String::from_utf8_lossy(bytes).contains("expect="))).count();
    let ran = log.iter().filter(|e| matches!(&e.rec, Rec::BExec { sql, .. } if sql.contains("expect="))).count();
    if ran != sent {
        let errs: Vec<String> = client_msgs(log, 0).iter().filter(|(_, m)| m.code == b'E').map(|(_, m)| m.err_field(b'M').unwrap_or_default()).collect();
        vs.push(v("C15.not-served", "C15.not-served".to_string(), format!("{} statements addressed configured shards/roles, {} were executed; errors {:?}", sent, ran, errs)));
    }
    vs
}

pub fn build(tier: &str) -> SimCheck {
    let thorough = tier == "thorough";
    let mut scenarios = Vec::new();
    for shards in SHARD_SETS {
        for layout in LAYOUTS {
            for ds in DEFAULT_SHARDS {
                for dr in DEFAULT_ROLES {
                    if !thorough {
                        // quick: full cross of shard sets x default_shard; layouts and roles one at a time
                        let base_layout = *layout == "p+r";
                        let base_role = *dr == "-";
                        let base_ds = *ds == "-";
                        let ndev = [!base_layout, !base_role, !base_ds].iter().filter(|x| **x).count();
                        if ndev > 1 && !(base_layout && base_role) {
                            continue;
                        }
                    }
                    scenarios.push(scenario(shards, layout, ds, dr, "none"));
                }
            }
        }
        for misc in MISC {
            if *misc != "none" {
                scenarios.push(scenario(shards, "p+r", "-", "-", misc));
            }
        }
    }
    // two pools: the item under test sits in the second pool
    for first in ["none", "authquery-pool-level"] {
        for misc in MISC {
            scenarios.push(scenario_two(first, (&["0", "1"], "p+r", "-", "-", misc)));
        }
        for shards in [&["0"][..], &["1", "2"][..], &["0", "2"][..], &["0", "x"][..]] {
            scenarios.push(scenario_two(first, (shards, "p+r", "-", "-", "none")));
        }
        for layout in LAYOUTS {
            scenarios.push(scenario_two(first, (&["0", "1"], layout, "-", "-", "none")));
        }
        for ds in DEFAULT_SHARDS {
            scenarios.push(scenario_two(first, (&["0", "1"], "p+r", ds, "-", "none")));
        }
        for dr in DEFAULT_ROLES {
            scenarios.push(scenario_two(first, (&["0", "1"], "p+r", "-", dr, "none")));
        }
    }
    SimCheck {
        scenarios,
        oracle: Box::new(oracle),
        bound: 0,
        limits: Limits { max_wall_s: if thorough { 2400.0 } else { 150.0 }, ..Default::default() },
        rule: "configuration grammar: 16 shard-id sets (contiguous up to 12 shards, not from 0, gaps, duplicates by value, non-numeric, unordered) x 7 server layouts (roles, two primaries, duplicate servers) x 8 default_shard values x 6 default_role values (incl. a capitalised one) (quick: one dimension varied at a time around the base, full cross of shard sets x default_shard) + two-pool files (first pool clean or with auth_query configured for itself only; every item of the grammar placed in the second pool) + server-side user name / password given fully or partly + 10 other defects (missing credentials, auth_query, half-configured auth_query, invalid regex, plugins / splitting without parser, min_pool_size, unqualified sharding key, two users); each file is loaded by the real config::parse + from_config in its own process; accepted files are then served: one transaction per (shard 0..n-1, role), one with no shard selected, two after SET SHARD to a number that is not configured (refused: the selection must be unchanged), one more per shard after an idle gap (health check on checkout), SHOW DATABASES/POOLS/STATS/SERVERS/BANS/CONFIG, BAN/UNBAN".into(),
        assumptions: vec!["reference predicate 'unservable' is the property's own list; rejecting a file is always safe".into()],
    }
}
