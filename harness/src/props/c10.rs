//! C10 — a cancel request reaches only the requester's own running server session.

use super::common::*;
use super::SimCheck;
use crate::cfg::{env, Cfg, PoolCfg, Script};
use crate::explore::{Limits, Violation};
use crate::mockpg::{Gate, Rec};
use crate::wire;
use crate::world::{CancelKey, Cond, Opts, Outcome, Scenario, Step};

pub fn conn_pid_key(id: usize) -> (i32, i32) {
    (7000 + id as i32, 0x5EC0_0000u32 as i32 + (id as i32) * 7919)
}

fn program(c: usize, prog: &str, stay: bool) -> Script {
    let t = |j: usize, k: usize| tag(c, j, k);
    // "<prog>-params": the client has a session parameter of its own, so that every checkout starts with
    // the pooler's `SET application_name TO 'app-c<i>'` on the borrowed server
    let (prog, with_params) = match prog.strip_suffix("-params") {
        Some(p) => (p, true),
        None => (prog, false),
    };
    let mut s = Script::new(&format!("c{}", c));
    s = if with_params {
        s.connect_params("alice", "db", Some("alicepw"), &[("application_name", &format!("app-c{}", c))])
    } else {
        s.connect("alice", "db", Some("alicepw"))
    };
    match prog {
        "txn2" => {
            s = s
                .q(&format!("BEGIN /*{}*/", t(0, 0)))
                .q(&format!("SELECT 1 /*{}*/", t(0, 1)))
                .q(&format!("COMMIT /*{}*/", t(0, 2)))
                .q(&format!("SELECT 2 /*{}*/", t(1, 0)));
        }
        "auto" => {
            s = s.q(&format!("SELECT 1 /*{}*/", t(0, 0)));
        }
        "copyin" => {
            s = s
                .send(wire::query(&format!("COPY t FROM STDIN /*{}*/", t(0, 0))), "Q COPY FROM STDIN")
                .wait(Cond::CodeOrClosed(b'G', 1))
                .send(wire::copy_data(format!("r {}\n", t(0, 1)).as_bytes()), "d")
                .send_z(wire::copy_done(), "c");
        }
        "copyfail" => {
            s = s
                .send(wire::query(&format!("COPY t FROM STDIN /*{}*/", t(0, 0))), "Q COPY FROM STDIN")
                .wait(Cond::CodeOrClosed(b'G', 1))
                .send_z(wire::copy_fail("no"), "f");
        }
        "ext" => {
            let mut b = wire::parse("", &format!("SELECT 1 /*{}*/", t(0, 0)), &[]);
            b.extend(wire::bind("", "", &[], &[Some(t(0, 1).into_bytes())], &[]));
            b.extend(wire::execute("", 0));
            b.extend(wire::sync());
            s = s.send_z(b, "P B E S");
        }
        "idle-in-txn" => {
            // transaction left open until idle_client_in_transaction_timeout ends it
            s = s.q(&format!("BEGIN /*{}*/", t(0, 0))).q(&format!("SELECT 1 /*{}*/", t(0, 1))).wait(Cond::TimeMs(3600));
        }
        _ => panic!("unknown program"),
    }
    if !stay {
        s = s.terminate();
    }
    s
}

pub fn scenario(mode: &str, pool_size: u32, px: &str, py: &str, key: &str) -> Scenario {
    let pool = PoolCfg::simple("db", mode, pool_size, 1, 0);
    let mut cfg = Cfg::one(pool);
    if px == "idle-in-txn" {
        cfg.idle_in_txn_timeout = 3000;
    }
    let mut servers = cfg.servers();
    servers[0].gate = Gate::PerReply;
    let stay = mode == "transaction";
    let x = program(0, px, stay).actor();
    let y = program(1, py, false).actor();
    // Z connected earlier and is gone: its key is stale. It left by Terminate, or ("stale-dropped") it
    // vanished in the middle of a transaction, so that the pooler took the error exit
    let z = if key == "stale-dropped" {
        Script::new("z")
            .connect("alice", "db", Some("alicepw"))
            .q(&format!("BEGIN /*{}*/", tag(2, 0, 0)))
            .q(&format!("SELECT 0 /*{}*/", tag(2, 0, 1)))
            .close(crate::world::CloseKind::HardDrop)
            .actor()
    } else {
        Script::new("z").connect("alice", "db", Some("alicepw")).q(&format!("SELECT 0 /*{}*/", tag(2, 0, 0))).terminate().actor()
    };
    let (ck, pre): (CancelKey, Vec<Step>) = match key {
        "x" => (CancelKey::OfClient(0), vec![Step::Wait(Cond::ActorAt(0, 1))]),
        "y" => (CancelKey::OfClient(1), vec![Step::Wait(Cond::ActorAt(1, 1))]),
        "stale" | "stale-dropped" => (CancelKey::StaleOfClient(2), vec![Step::Wait(Cond::ActorsDone(vec![2]))]),
        "random" => (CancelKey::Raw(123456, 654321), vec![]),
        "pid-only" => (CancelKey::PidOnly(0), vec![Step::Wait(Cond::ActorAt(0, 1))]),
        _ => panic!("key"),
    };
    let mut steps = pre;
    steps.push(Step::Cancel(ck));
    let mut actors = vec![x, y, z, env("canceller", steps)];
    if px == "idle-in-txn" {
        actors.push(env("clock", vec![Step::Wait(Cond::ActorAt(0, 5)), Step::Advance(3600)]));
    }
    Scenario {
        name: format!("C10 mode={} pool_size={} x={} y={} key={}", mode, pool_size, px, py, key),
        toml: cfg.toml(),
        alt_tomls: vec![],
        servers,
        actors,
        opts: Opts::default(),
        meta: serde_json::json!({"key": key, "mode": mode}),
    }
}

/// A RELOAD that changes an unrelated pool ("other") or the pool_size of X's own pool ("own") lands anywhere
/// in the schedule: X's running session is still X's, and its cancel key still has to reach it.
pub fn reload_scenario(pool_size: u32, px: &str, key: &str, changed: &str) -> Scenario {
    let mk = |db2_size: u32, db_size: u32| {
        let mut p2 = PoolCfg::simple("db2", "transaction", db2_size, 1, 0);
        p2.shards[0].servers = vec![("pg-other".to_string(), 5432, "primary".to_string())];
        Cfg { pools: vec![PoolCfg::simple("db", "transaction", db_size, 1, 0), p2], ..Default::default() }
    };
    let cfg = mk(2, pool_size);
    let new = if changed == "other" { mk(3, pool_size) } else { mk(2, pool_size + 1) };
    let mut servers = cfg.servers();
    servers[0].gate = Gate::PerReply;
    let x = program(0, px, true).actor();
    let y = program(1, "txn2", false).actor();
    let z = Script::new("z").connect("alice", "db", Some("alicepw")).q(&format!("SELECT 0 /*{}*/", tag(2, 0, 0))).terminate().actor();
    let (ck, pre): (CancelKey, Vec<Step>) = match key {
        "x" => (CancelKey::OfClient(0), vec![Step::Wait(Cond::ActorAt(0, 1))]),
        "stale" => (CancelKey::StaleOfClient(2), vec![Step::Wait(Cond::ActorsDone(vec![2]))]),
        _ => panic!("key"),
    };
    let mut steps = pre;
    steps.push(Step::Cancel(ck));
    let reload = env("reload", vec![Step::WriteConfig(0), Step::Admin("RELOAD".into())]);
    Scenario {
        name: format!("C10 reload changed={} pool_size={} x={} y=txn2 key={}", changed, pool_size, px, key),
        toml: cfg.toml(),
        alt_tomls: vec![new.toml()],
        servers,
        actors: vec![x, y, z, env("canceller", steps), reload],
        opts: Opts::default(),
        meta: serde_json::json!({"key": key, "mode": "transaction", "reload": changed}),
    }
}

/// conn held by client `c` at log position `s` (transaction mode: open transaction / copy / batch; session mode: until the client leaves).
/// The hold begins with the parameter sync (`SET <tracked> TO ..`) the pooler runs on the borrowed server
/// right before the client's first statement: those control queries are attributed to the client whose
/// statement follows them on that connection.
fn held_conn(log: &[crate::mockpg::Entry], c: usize, s: usize, session: bool, until_pooler_lets_go: bool) -> Option<usize> {
    // (conn, owner, from_seq, to_seq)
    let mut intervals: Vec<(usize, usize, usize, usize)> = Vec::new();
    let mut open: std::collections::BTreeMap<usize, (usize, usize)> = std::collections::BTreeMap::new(); // conn -> (owner, from)
    let mut sync_start: std::collections::BTreeMap<usize, usize> = std::collections::BTreeMap::new(); // conn -> seq of the first pending SET
    let mut close_owner = |open: &mut std::collections::BTreeMap<usize, (usize, usize)>, intervals: &mut Vec<(usize, usize, usize, usize)>, conn: usize, at: usize| {
        if let Some((o, from)) = open.remove(&conn) {
            intervals.push((conn, o, from, at));
        }
    };
    for e in log.iter() {
        match &e.rec {
            Rec::BRecv { conn, msg, .. } => {
                if is_control(msg) {
                    if !open.contains_key(conn) && msg.text().trim_start().starts_with("SET ") {
                        sync_start.entry(*conn).or_insert(e.seq);
                    }
                    continue;
                }
                if let Some(t) = msg_tag(msg) {
                    match open.get(conn) {
                        Some((o, _)) if *o == t.c => {}
                        _ => {
                            close_owner(&mut open, &mut intervals, *conn, e.seq);
                            let from = sync_start.remove(conn).unwrap_or(e.seq);
                            open.insert(*conn, (t.c, from));
                        }
                    }
                    sync_start.remove(conn);
                }
            }
            Rec::BSend { conn, bytes } => {
                if !session {
                    if let Some((_, _)) = open.get(conn) {
                        let (msgs, _, _) = wire::split_stream(bytes);
                        if let Some(z) = msgs.iter().rev().find(|m| m.code == b'Z') {
                            if z.body.first() == Some(&b'I') {
                                close_owner(&mut open, &mut intervals, *conn, e.seq);
                            }
                        }
                    }
                }
            }
            Rec::BClose { conn, .. } => {
                close_owner(&mut open, &mut intervals, *conn, e.seq);
                sync_start.remove(conn);
            }
            // (a client that vanished: the pooler, and the server, still have its transaction open until the
            // pooler notices and rolls back; until then the session is nobody else's)
            Rec::CClosed { c: cc, .. } | Rec::CEof { c: cc } if !until_pooler_lets_go => {
                let conns: Vec<usize> = open.iter().filter(|(_, (o, _))| o == cc).map(|(k, _)| *k).collect();
                for k in conns {
                    close_owner(&mut open, &mut intervals, k, e.seq);
                }
            }
            _ => {}
        }
    }
    for (conn, (o, from)) in open {
        intervals.push((conn, o, from, usize::MAX));
    }
    intervals.iter().find(|(_, o, from, to)| *o == c && *from <= s && s < *to).map(|(conn, _, _, _)| *conn)
}

pub fn oracle(sc: &Scenario, out: &Outcome) -> Vec<Violation> {
    let log = &out.log;
    let mut vs = Vec::new();
    let key = sc.meta["key"].as_str().unwrap();
    let session = sc.meta["mode"].as_str().unwrap() == "session";
    let x = sc.name.split_whitespace().find_map(|w| w.strip_prefix("x=")).unwrap_or("");
    let ctx = format!("key={}:x={}:{}", key, x, if session { "session" } else { "transaction" });
    let ctx = match sc.meta.get("reload").and_then(|r| r.as_str()) {
        Some(r) => format!("{}:reload-{}-pool", ctx, r),
        None => ctx,
    };
    // the cancel event
    let cancel_seq = log.iter().find_map(|e| match &e.rec {
        Rec::Note { msg } if msg.starts_with("cancel-request") => Some(e.seq),
        _ => None,
    });
    let cancels: Vec<(usize, String, i32, i32)> = log
        .iter()
        .filter_map(|e| match &e.rec {
            Rec::BCancel { server, pid, key, .. } => Some((e.seq, server.clone(), *pid, *key)),
            _ => None,
        })
        .collect();
    let s = match cancel_seq {
        Some(s) => s,
        None => {
            if !cancels.is_empty() {
                vs.push(v("C10.spontaneous", format!("C10.spontaneous:{}", ctx), "a CancelRequest reached a server although no client asked".into()));
            }
            return vs;
        }
    };
    let owner = match key {
        "x" => Some(0usize),
        "y" => Some(1usize),
        "stale-dropped" => Some(2usize),
        _ => None,
    };
    let allowed: Option<usize> = owner.and_then(|o| held_conn(log, o, s, session, key == "stale-dropped"));
    for (seq, server, pid, k) in &cancels {
        match allowed {
            None => vs.push(v(
                "C10.unexpected-cancel",
                format!("C10.unexpected-cancel:{}", ctx),
                format!(
                    "CancelRequest pid={} reached {} at seq {} although {} at the moment of the request",
                    pid,
                    server,
                    seq,
                    match owner {
                        Some(o) => format!("client {} held no server connection", o),
                        None => "the key was stale / unknown / had a wrong secret".to_string(),
                    }
                ),
            )),
            Some(conn) => {
                let (wp, wk) = conn_pid_key(conn);
                if (*pid, *k) != (wp, wk) || *server != conn_server(log, conn) {
                    vs.push(v(
                        "C10.wrong-target",
                        format!("C10.wrong-target:{}", ctx),
                        format!("CancelRequest for pid={} key={} on {} but the requester's session is backend conn {} (pid {})", pid, k, server, conn, wp),
                    ));
                }
            }
        }
    }
    if let Some(conn) = allowed {
        if cancels.is_empty() && !out.blocked && key != "stale-dropped" {
            // the requester was running on `conn`: its cancel should have been forwarded
            vs.push(v(
                "C10.cancel-lost",
                format!("C10.cancel-lost:{}", ctx),
                format!("client's own running session (backend conn {}) was not sent the CancelRequest", conn),
            ));
        }
    }
    vs
}

pub fn build(tier: &str) -> SimCheck {
    let thorough = tier == "thorough";
    let mut scenarios = Vec::new();
    for mode in ["transaction", "session"] {
        for pool_size in [1u32, 2] {
            let xs: Vec<&str> = if mode == "transaction" { vec!["txn2", "copyin", "copyfail", "ext", "idle-in-txn", "auto"] } else { vec!["txn2", "copyin"] };
            for px in xs {
                let ys: Vec<&str> = if thorough { vec!["txn2", "auto", "ext"] } else { vec!["txn2"] };
                for py in ys {
                    for key in ["x", "y", "stale", "stale-dropped", "random", "pid-only"] {
                        if !thorough && px != "txn2" && !(key == "x" || key == "stale" || key == "stale-dropped") {
                            continue;
                        }
                        scenarios.push(scenario(mode, pool_size, px, py, key));
                    }
                }
            }
        }
    }
    // X has a session parameter of its own: the borrowed server is first sent the pooler's parameter sync
    for pool_size in [1u32, 2] {
        for px in ["txn2-params", "auto-params"] {
            for key in ["x", "y", "stale"] {
                scenarios.push(scenario("transaction", pool_size, px, "txn2", key));
            }
        }
    }
    // a RELOAD somewhere in the schedule
    for pool_size in [1u32, 2] {
        for px in ["txn2", "auto"] {
            for key in ["x", "stale"] {
                for changed in ["other", "own"] {
                    if !thorough && (pool_size == 2 || px == "auto") && changed == "own" {
                        continue;
                    }
                    scenarios.push(reload_scenario(pool_size, px, key, changed));
                }
            }
        }
    }
    SimCheck {
        scenarios,
        oracle: Box::new(oracle),
        bound: 2,
        limits: Limits { max_wall_s: if thorough { 1500.0 } else { 150.0 }, ..Default::default() },
        rule: "scenario = pool mode x pool_size {1,2} x program of X (two transactions, COPY in + CopyDone/CopyFail, extended batch, idle-in-transaction timeout, autocommit; X stays connected) x program of Y x cancel key (X's, Y's, stale key of a client that left by Terminate / that vanished inside a transaction, random, right pid wrong secret); also with a RELOAD that changes another pool / X's own pool placed anywhere; backend replies gated so statements are genuinely running; the cancel event placed at every point of every interleaving with <= 2 deviations".into(),
        assumptions: vec!["ownership interval of a server session judged at quiescent instants from the reference backend's log (first statement of a transaction .. delivery of the ReadyForQuery(idle) that ends it)".into()],
    }
}
