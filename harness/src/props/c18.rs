//! C18 — admin statistics count every client, server connection and transaction once.

use super::common::*;
use super::SimCheck;
use crate::cfg::{env, Cfg, PoolCfg, Script};
use crate::explore::{Limits, Violation};
use crate::mockpg::Rec;
use crate::wire;
use crate::world::{CancelKey, CloseKind, Cond, Opts, Outcome, Scenario, Step};
use std::collections::{BTreeMap, BTreeSet};

pub const PROGRAMS: &[&str] = &[
    "txn", "autos", "ext", "failed-txn", "copyin", "copyout", "bad-password", "unknown-pool", "drop-idle", "drop-in-txn", "terminate-in-txn", "stay", "fin-in-txn", "multi-stmt", "txn-then-drop-in-txn", "txn-then-terminate-in-txn", "ext-copyin", "admin-terminate", "admin-drop", "admin-parse",
];

pub fn program(c: usize, prog: &str) -> Script {
    let t = |j: usize, k: usize| tag(c, j, k);
    let s = Script::new(&format!("c{}", c));
    match prog {
        "txn" => s
            .connect("alice", "db", Some("alicepw"))
            .q(&format!("BEGIN /*{}*/", t(0, 0)))
            .q(&format!("SELECT 1 /*{}*/", t(0, 1)))
            .q(&format!("COMMIT /*{}*/", t(0, 2)))
            .terminate(),
        "autos" => s.connect("alice", "db", Some("alicepw")).q(&format!("SELECT 1 /*{}*/", t(0, 0))).q(&format!("SELECT 2 /*{}*/", t(1, 0))).terminate(),
        "multi-stmt" => s.connect("alice", "db", Some("alicepw")).q(&format!("SELECT 1; SELECT 2 /*{}*/", t(0, 0))).terminate(),
        "ext" => {
            let mut b = wire::parse("", &format!("SELECT 1 /*{}*/", t(0, 0)), &[]);
            b.extend(wire::bind("", "", &[], &[Some(t(0, 1).into_bytes())], &[]));
            b.extend(wire::execute("", 0));
            b.extend(wire::sync());
            s.connect("alice", "db", Some("alicepw")).send_z(b, "P B E S").terminate()
        }
        "failed-txn" => s
            .connect("alice", "db", Some("alicepw"))
            .q(&format!("BEGIN /*{}*/", t(0, 0)))
            .q(&format!("SELECT ERR! /*{}*/", t(0, 1)))
            .q(&format!("ROLLBACK /*{}*/", t(0, 2)))
            .terminate(),
        "copyin" => s
            .connect("alice", "db", Some("alicepw"))
            .send(wire::query(&format!("COPY t FROM STDIN /*{}*/", t(0, 0))), "Q COPY FROM STDIN")
            .wait(Cond::CodeOrClosed(b'G', 1))
            .send(wire::copy_data(format!("r {}\n", t(0, 1)).as_bytes()), "d")
            .send_z(wire::copy_done(), "c")
            .terminate(),
        "ext-copyin" => {
            let mut b = wire::parse("", &format!("COPY t FROM STDIN /*{}*/", t(0, 0)), &[]);
            b.extend(wire::bind("", "", &[], &[], &[]));
            b.extend(wire::execute("", 0));
            b.extend(wire::sync());
            let mut end = wire::copy_done();
            end.extend(wire::sync());
            s.connect("alice", "db", Some("alicepw"))
                .send(b, "P B E S (COPY)")
                .wait(Cond::CodeOrClosed(b'G', 1))
                .send(wire::copy_data(format!("r {}\n", t(0, 1)).as_bytes()), "d")
                .send_z(end, "c S")
                .terminate()
        }
        "copyout" => s.connect("alice", "db", Some("alicepw")).q(&format!("COPY t TO STDOUT /*{} rows=2*/", t(0, 0))).terminate(),
        // admin clients: leaving by Terminate, vanishing, thrown out for speaking the extended protocol
        "admin-terminate" => s.connect("admin_user", "pgcat", Some("admin_pass")).q("SHOW VERSION").terminate(),
        "admin-drop" => s.connect("admin_user", "pgcat", Some("admin_pass")).q("SHOW VERSION").close(CloseKind::HardDrop),
        "admin-parse" => {
            let mut b = wire::parse("", "SHOW VERSION", &[]);
            b.extend(wire::sync());
            s.connect("admin_user", "pgcat", Some("admin_pass")).q("SHOW VERSION").send(b, "P S").wait(Cond::Closed)
        }
        "bad-password" => s.connect("alice", "db", Some("wrong")),
        "unknown-pool" => s.connect("alice", "nodb", Some("alicepw")),
        "drop-idle" => s.connect("alice", "db", Some("alicepw")).q(&format!("SELECT 1 /*{}*/", t(0, 0))).close(CloseKind::HardDrop),
        "drop-in-txn" => s.connect("alice", "db", Some("alicepw")).q(&format!("BEGIN /*{}*/", t(0, 0))).q(&format!("SELECT 1 /*{}*/", t(0, 1))).close(CloseKind::HardDrop),
        "fin-in-txn" => s.connect("alice", "db", Some("alicepw")).q(&format!("BEGIN /*{}*/", t(0, 0))).close(CloseKind::Fin),
        "terminate-in-txn" => s.connect("alice", "db", Some("alicepw")).q(&format!("BEGIN /*{}*/", t(0, 0))).terminate(),
        "txn-then-drop-in-txn" => s
            .connect("alice", "db", Some("alicepw"))
            .q(&format!("BEGIN /*{}*/", t(0, 0)))
            .q(&format!("SELECT 1 /*{}*/", t(0, 1)))
            .q(&format!("COMMIT /*{}*/", t(0, 2)))
            .q(&format!("BEGIN /*{}*/", t(1, 0)))
            .q(&format!("SELECT 2 /*{}*/", t(1, 1)))
            .close(CloseKind::HardDrop),
        "txn-then-terminate-in-txn" => s
            .connect("alice", "db", Some("alicepw"))
            .q(&format!("SELECT 1 /*{}*/", t(0, 0)))
            .q(&format!("BEGIN /*{}*/", t(1, 0)))
            .terminate(),
        "stay" => s.connect("alice", "db", Some("alicepw")).q(&format!("SELECT 1 /*{}*/", t(0, 0))).wait(Cond::TimeMs(0)),
        _ => panic!("prog"),
    }
}

pub fn scenario(mode: &str, pool_size: u32, progs: &[&str], with_cancel: bool) -> Scenario {
    scenario_cached(mode, pool_size, progs, with_cancel, 0)
}

/// The replica cannot be logged in to (refuses the connection / closes it / answers the startup packet with
/// FATAL): the failed attempts must leave nothing behind in the registries.
pub fn scenario_replica_down(mode: &str, pool_size: u32, progs: &[&str], how: &str) -> Scenario {
    let mut sc = scenario_cached(mode, pool_size, progs, false, 0);
    match how {
        "refuse" => sc.servers[1].accept = crate::mockpg::Accept::Refuse,
        "close" => sc.servers[1].startup = crate::mockpg::StartupMode::CloseAfterAccept,
        "fatal" => sc.servers[1].startup = crate::mockpg::StartupMode::ErrorAtStartup,
        _ => panic!("how"),
    }
    sc.name = format!("{} replica={}", sc.name, how);
    sc.meta["replica_down"] = serde_json::json!(how);
    sc
}

/// pool_size 1 per server, one primary only: c0 holds the server in a transaction, c1's statement is queued for
/// it, PAUSE arrives, c0 commits: c1 is handed the server, finds the pool paused and gives it back. While it
/// waits for RESUME nobody holds the server, and the tables have to say so.
pub fn pause_scenario(mode: &str) -> Scenario {
    let t = |c: usize, j: usize, k: usize| tag(c, j, k);
    let mut pool = PoolCfg::simple("db", mode, 1, 1, 0);
    pool.extra = String::new();
    let cfg = Cfg::one(pool);
    let servers = cfg.servers();
    let c0 = Script::new("c0")
        .connect("alice", "db", Some("alicepw"))
        .q(&format!("BEGIN /*{}*/", t(0, 0, 0)))
        .q(&format!("SELECT 1 /*{}*/", t(0, 0, 1)))
        .wait(Cond::ActorAt(2, 2))
        .q(&format!("COMMIT /*{}*/", t(0, 0, 2)))
        .terminate();
    let c1 = Script::new("c1").connect("alice", "db", Some("alicepw")).wait(Cond::ActorAt(0, 5)).q(&format!("SELECT 1 /*{}*/", t(1, 0, 0))).q(&format!("SELECT 2 /*{}*/", t(1, 1, 0))).terminate();
    let admin = env("admin", vec![Step::Wait(Cond::ActorAt(1, 3)), Step::Admin("PAUSE".into()), Step::Wait(Cond::ActorsDone(vec![0])), Step::Probe, Step::Admin("RESUME".into())]);
    let fin = env("final", vec![Step::Wait(Cond::ActorsDone(vec![0, 1, 2])), Step::Admin("SHOW POOLS".into()), Step::Admin("SHOW SERVERS".into()), Step::Probe]);
    Scenario {
        name: format!("C18 mode={} pool_size=1 progs=txn+queued cancel=false pause=yes", mode),
        toml: cfg.toml(),
        alt_tomls: vec![],
        servers,
        actors: vec![c0.actor(), c1.actor(), admin, fin],
        opts: Opts { probe_each: true, ..Opts::default() },
        meta: serde_json::json!({"n": 2, "progs": ["txn", "queued"], "mode": mode}),
    }
}

pub fn scenario_cached(mode: &str, pool_size: u32, progs: &[&str], with_cancel: bool, cache: usize) -> Scenario {
    let mut pool = PoolCfg::simple("db", mode, pool_size, 1, 1);
    if cache > 0 {
        pool.extra = format!("prepared_statements_cache_size = {}\n", cache);
    }
    let cfg = Cfg::one(pool);
    let servers = cfg.servers();
    let mut actors: Vec<_> = progs.iter().enumerate().map(|(i, p)| program(i, p).actor()).collect();
    let n = actors.len();
    let mut steps = vec![];
    if with_cancel {
        steps.push(Step::Cancel(CancelKey::Raw(4242, 2424)));
    }
    // clients that stay are released at the very end by closing them
    let mut closers = Vec::new();
    for (i, p) in progs.iter().enumerate() {
        if *p == "stay" {
            closers.push(i);
        }
    }
    actors.push(env("cancel", steps));
    let all: Vec<usize> = (0..n + 1).filter(|i| !closers.contains(i)).collect();
    let mut fin = vec![Step::Wait(Cond::ActorsDone(all)), Step::Admin("SHOW POOLS".into()), Step::Admin("SHOW CLIENTS".into()), Step::Admin("SHOW SERVERS".into()), Step::Admin("SHOW LISTS".into()), Step::Admin("SHOW STATS".into())];
    fin.push(Step::Probe);
    actors.push(env("final", fin));
    Scenario {
        name: format!("C18 mode={} pool_size={} progs={} cancel={}{}", mode, pool_size, progs.join("+"), with_cancel, if cache > 0 { " cache=on" } else { "" }),
        toml: cfg.toml(),
        alt_tomls: vec![],
        servers,
        actors,
        opts: Opts { probe_each: true, ..Opts::default() },
        meta: serde_json::json!({"n": n, "progs": progs, "mode": mode}),
    }
}

pub fn oracle(sc: &Scenario, out: &Outcome) -> Vec<Violation> {
    let log = &out.log;
    let mut vs: Vec<Violation> = Vec::new();
    let n = sc.meta["n"].as_u64().unwrap() as usize;
    let progs: Vec<String> = sc.meta["progs"].as_array().unwrap().iter().map(|x| x.as_str().unwrap().to_string()).collect();
    let session = sc.meta["mode"].as_str().unwrap() == "session";
    let ctx = format!("{}:{}", if session { "session" } else { "transaction" }, progs.join("+"));
    let ctx = match sc.meta.get("replica_down").and_then(|x| x.as_str()) {
        Some(h) => format!("{}:replica-{}", ctx, h),
        None => ctx,
    };
    let mut push = |vs: &mut Vec<Violation>, o: &str, what: String, detail: String| {
        let sig = format!("{}:{}:{}", o, what, ctx);
        if !vs.iter().any(|x| x.sig == sig) {
            vs.push(v(o, sig, detail));
        }
    };
    if out.blocked {
        push(&mut vs, "C18.blocked", "blocked".into(), blocked_note(log).unwrap_or_default());
        return vs;
    }
    // ledger
    let mut logged_in: BTreeSet<usize> = BTreeSet::new();
    let mut gone: BTreeSet<usize> = BTreeSet::new();
    let mut auth_ok: BTreeSet<usize> = BTreeSet::new();
    let mut outstanding: BTreeMap<usize, Tag> = BTreeMap::new(); // client -> tag of request without reply yet
    let mut reached: BTreeSet<Tag> = BTreeSet::new();
    let mut held: BTreeMap<usize, usize> = BTreeMap::new(); // client -> conn
    let mut open_conns: BTreeSet<usize> = BTreeSet::new();
    let mut cancel_conns: BTreeSet<usize> = BTreeSet::new();
    let mut xacts: u64 = 0; // client transactions completed on the servers
    let mut queries: u64 = 0; // client requests executed
    let mut last_req: BTreeMap<usize, (u8, bool)> = BTreeMap::new(); // conn -> (code of pending client request, client originated)
    let mut prev_totals: BTreeMap<String, u64> = BTreeMap::new();
    let mut in_batch: BTreeMap<usize, bool> = BTreeMap::new();
    let mut paused = false;
    for e in log {
        match &e.rec {
            Rec::Event { label, .. } if label == "admin(PAUSE)" => paused = true,
            Rec::Event { label, .. } if label == "admin(RESUME)" => paused = false,
            Rec::CRecv { c, msg } if *c < n => {
                if msg.code == b'R' && msg.body == 0i32.to_be_bytes() {
                    auth_ok.insert(*c);
                }
                if msg.code == b'Z' {
                    if auth_ok.contains(c) {
                        logged_in.insert(*c);
                    }
                    outstanding.remove(c);
                }
            }
            Rec::CEof { c } | Rec::CClosed { c, .. } if *c < n => {
                gone.insert(*c);
                held.remove(c);
            }
            Rec::CSend { c, bytes } if *c < n => {
                if let Some(t) = find_tag(bytes) {
                    outstanding.insert(*c, t);
                }
                if bytes.first() == Some(&b'X') && bytes.len() == 5 {
                    gone.insert(*c);
                    held.remove(c);
                }
            }
            Rec::BAccept { conn, .. } => {
                open_conns.insert(*conn);
            }
            Rec::BCancel { conn, .. } => {
                cancel_conns.insert(*conn);
                open_conns.remove(conn);
            }
            Rec::BClose { conn, .. } => {
                open_conns.remove(conn);
                held.retain(|_, k| k != conn);
            }
            Rec::BRecv { conn, msg, .. } => {
                if is_control(msg) {
                    last_req.insert(*conn, (msg.code, false));
                    continue;
                }
                if let Some(t) = msg_tag(msg) {
                    reached.insert(t);
                    if t.c < n {
                        held.insert(t.c, *conn);
                    }
                }
                match msg.code {
                    b'Q' => {
                        queries += 1;
                        last_req.insert(*conn, (b'Q', true));
                    }
                    b'P' | b'B' | b'D' | b'E' | b'C' => {
                        in_batch.insert(*conn, true);
                    }
                    b'S' => {
                        if in_batch.remove(conn).unwrap_or(false) {
                            queries += 1;
                        }
                        last_req.insert(*conn, (b'S', true));
                    }
                    b'c' | b'f' => {
                        last_req.insert(*conn, (msg.code, true));
                    }
                    _ => {}
                }
            }
            Rec::BSend { conn, bytes } => {
                let (msgs, _, _) = wire::split_stream(bytes);
                for m in msgs {
                    if m.code == b'Z' {
                        let client_req = last_req.get(conn).map(|x| x.1).unwrap_or(false);
                        if client_req && m.body.first() == Some(&b'I') {
                            xacts += 1;
                            if !session {
                                held.retain(|_, k| k != conn);
                            }
                        }
                        if !client_req && m.body.first() == Some(&b'I') && !session {
                            // ROLLBACK by the pooler after a client left mid-transaction
                            held.retain(|_, k| k != conn);
                        }
                        last_req.remove(conn);
                    }
                }
            }
            Rec::Probe { data } => {
                let j: serde_json::Value = serde_json::from_str(data).unwrap();
                let connected: Vec<usize> = logged_in.iter().filter(|c| !gone.contains(c) && !progs[**c].starts_with("admin-")).cloned().collect();
                let admin_connected = logged_in.iter().filter(|c| !gone.contains(c) && progs[**c].starts_with("admin-")).count();
                let listed: Vec<&serde_json::Value> = j["clients"].as_array().unwrap().iter().filter(|c| c["pool"] == "db").collect();
                if listed.len() != connected.len() {
                    push(
                        &mut vs,
                        "C18.clients-listed",
                        format!("{}!={}", listed.len(), connected.len()),
                        format!("at seq {}: SHOW CLIENTS lists {} clients of the pool, {} are connected ({:?})", e.seq, listed.len(), connected.len(), connected),
                    );
                }
                // nothing else may be listed: every entry is a client of the pool or the (single) admin session
                let strangers: Vec<&serde_json::Value> = j["clients"].as_array().unwrap().iter().filter(|c| c["pool"] != "db" && c["pool"] != "pgcat").collect();
                let admins = j["clients"].as_array().unwrap().iter().filter(|c| c["pool"] == "pgcat").count();
                // (the probing admin session of the harness itself, plus the scripted admin clients still connected;
                // a scripted one whose departure the pooler has not processed yet may still be listed)
                let admin_ever = logged_in.iter().filter(|c| progs[**c].starts_with("admin-")).count();
                let quiescent_admins = if outstanding.is_empty() { admin_connected } else { admin_ever };
                if !strangers.is_empty() || admins > 1 + quiescent_admins.max(admin_connected) {
                    push(
                        &mut vs,
                        "C18.clients-listed",
                        "phantom".to_string(),
                        format!("at seq {}: SHOW CLIENTS lists entries that are no connected client: {:?} ({} admin entries)", e.seq, strangers, admins),
                    );
                }
                for sp in j["show_pools"].as_array().unwrap() {
                    if sp["db"] != "db" {
                        continue;
                    }
                    let (i, a, w) = (sp["cl_idle"].as_u64().unwrap(), sp["cl_active"].as_u64().unwrap(), sp["cl_waiting"].as_u64().unwrap());
                    if (i + a + w) as usize != connected.len() {
                        push(
                            &mut vs,
                            "C18.pool-client-sum",
                            "sum".into(),
                            format!("at seq {}: SHOW POOLS idle+active+waiting = {}+{}+{} but {} clients are connected", e.seq, i, a, w, connected.len()),
                        );
                    }
                    // states
                    let want_active = connected.iter().filter(|c| held.contains_key(c)).count() as u64;
                    let want_waiting = connected.iter().filter(|c| !held.contains_key(c) && outstanding.get(c).map(|t| !reached.contains(t)).unwrap_or(false)).count() as u64;
                    // (a client held by PAUSE has a request outstanding and no server: the pooler shows it as idle
                    // or as waiting depending on where it was caught; either is fine, "active" is not)
                    let state_ok = if paused { a == want_active && w <= want_waiting } else { a == want_active && w == want_waiting };
                    if !state_ok {
                        push(
                            &mut vs,
                            "C18.client-state",
                            format!("active={}/{}:waiting={}/{}", a, want_active, w, want_waiting),
                            format!("at seq {}: SHOW POOLS reports cl_active={} cl_waiting={} cl_idle={}; by the ledger {} clients hold a server and {} wait for one (held {:?})", e.seq, a, w, i, want_active, want_waiting, held),
                        );
                    }
                    let sv_active = sp["sv_active"].as_u64().unwrap();
                    let want_sv_active = held.values().collect::<BTreeSet<_>>().len() as u64;
                    if sv_active != want_sv_active {
                        push(
                            &mut vs,
                            "C18.server-active",
                            format!("{}/{}", sv_active, want_sv_active),
                            format!("at seq {}: SHOW POOLS sv_active={} but {} server connections are borrowed by a client ({:?})", e.seq, sv_active, want_sv_active, held),
                        );
                    }
                }
                let listed_servers = j["servers"].as_array().unwrap().len();
                if listed_servers != open_conns.len() {
                    push(
                        &mut vs,
                        "C18.servers-listed",
                        format!("{}!={}", listed_servers, open_conns.len()),
                        format!("at seq {}: SHOW SERVERS lists {} server connections, the backends have {} open ({:?})", e.seq, listed_servers, open_conns.len(), open_conns),
                    );
                }
                // totals: exact and monotone
                let mut tx = 0u64;
                let mut tq = 0u64;
                let mut totals: BTreeMap<String, u64> = BTreeMap::new();
                for p in j["pools"].as_array().unwrap() {
                    for (k, val) in p["addr_stats"].as_object().unwrap() {
                        *totals.entry(format!("{}@{}", k, p["host"].as_str().unwrap())).or_insert(0) += val.as_u64().unwrap();
                    }
                    tx += p["addr_stats"]["total_xact_count"].as_u64().unwrap_or(0);
                    tq += p["addr_stats"]["total_query_count"].as_u64().unwrap_or(0);
                }
                for (k, val) in &totals {
                    if k.contains("time") {
                        continue;
                    }
                    if let Some(prev) = prev_totals.get(k) {
                        if val < prev {
                            push(&mut vs, "C18.total-decreased", k.split('@').next().unwrap().to_string(), format!("at seq {}: {} went from {} to {}", e.seq, k, prev, val));
                        }
                    }
                }
                prev_totals = totals;
                // only compare counts when no client request is in flight
                if outstanding.is_empty() {
                    if tx != xacts {
                        push(
                            &mut vs,
                            "C18.xact-count",
                            format!("{}", if tx > xacts { "over" } else { "under" }),
                            format!("at seq {}: total_xact_count = {} but the servers completed {} client transactions", e.seq, tx, xacts),
                        );
                    }
                    if tq != queries {
                        push(
                            &mut vs,
                            "C18.query-count",
                            format!("{}", if tq > queries { "over" } else { "under" }),
                            format!("at seq {}: total_query_count = {} but the servers executed {} client requests", e.seq, tq, queries),
                        );
                    }
                }
            }
            _ => {}
        }
    }
    vs
}

pub fn build(tier: &str) -> SimCheck {
    let thorough = tier == "thorough";
    let mut scenarios = Vec::new();
    for mode in ["transaction", "session"] {
        for pool_size in [1u32, 2] {
            for p in PROGRAMS {
                scenarios.push(scenario(mode, pool_size, &[p], false));
                scenarios.push(scenario(mode, pool_size, &[p, "txn"], *p == "txn"));
                if thorough {
                    scenarios.push(scenario(mode, pool_size, &["autos", p, "stay"], false));
                    scenarios.push(scenario(mode, pool_size, &[p, "drop-in-txn", "txn"], false));
                }
            }
            // extended protocol with the statement cache on (renamed statements, batches partly answered by the pooler)
            scenarios.push(scenario_cached(mode, pool_size, &["ext"], false, 8));
            scenarios.push(scenario_cached(mode, pool_size, &["ext", "ext"], false, 8));
            scenarios.push(scenario_cached(mode, pool_size, &["ext", "txn"], false, 8));
            scenarios.push(scenario(mode, pool_size, &["txn", "drop-in-txn", "autos"], true));
            scenarios.push(scenario(mode, pool_size, &["stay", "txn", "stay"], false));
            if pool_size == 1 {
                scenarios.push(pause_scenario(mode));
            }
            for how in ["refuse", "close", "fatal"] {
                scenarios.push(scenario_replica_down(mode, pool_size, &["autos", "txn"], how));
                if thorough {
                    scenarios.push(scenario_replica_down(mode, pool_size, &["autos", "drop-in-txn", "stay"], how));
                }
            }
        }
    }
    SimCheck {
        scenarios,
        oracle: Box::new(oracle),
        bound: if thorough { 3 } else { 2 },
        limits: Limits { max_wall_s: if thorough { 2400.0 } else { 150.0 }, ..Default::default() },
        rule: "scenario = pool mode x pool_size {1,2} (1 primary + 1 replica) x 1-3 client programs out of 14 (transactions over both protocols, multi-statement, failed, COPY in/out, bad password, unknown pool, hard drop while idle / in transaction, FIN and Terminate in transaction, staying connected, admin clients leaving by Terminate / vanishing / thrown out for sending Parse) with an optional cancel-request connection; also a statement queued for the only server when PAUSE arrives (handed the server, gives it back, waits); also with a replica that cannot be logged in to (refuses / closes / FATAL at startup); all schedules with <= bound deviations; after EVERY event the pooler's registries (what SHOW POOLS/CLIENTS/SERVERS/STATS print) are compared with a ledger kept from the scripted clients' and the reference backend's logs; the SHOW commands themselves are run at the end".into(),
        assumptions: vec!["the registries are read through the same public functions the SHOW commands use (get_client_stats, get_server_stats, PoolStats::construct_pool_lookup, AddressStats)".into()],
    }
}
