//! C04 — server connections bounded by pool_size, never leaked; waiters are served.

use super::common::*;
use super::SimCheck;
use crate::cfg::{env, Cfg, PoolCfg, Script};
use crate::explore::{Limits, Violation};
use crate::mockpg::{Fault, FaultKind, Gate, Matcher, Rec};
use crate::wire;
use crate::world::{CloseKind, Cond, Opts, Outcome, Scenario, Step};
use std::collections::BTreeMap;

pub const PROGRAMS: &[&str] = &[
    "txn", "auto2", "drop-in-txn", "fin-in-txn", "srv-error", "srv-kill", "copyout-srvfail", "copyin-srvfail", "copy-abort", "batch-drop", "exttxn", "srv-reset-idle", "parse-only-stay", "prep-then-bind-stay", "ext-copyin",
];

pub fn program(c: usize, prog: &str, stay: bool) -> Script {
    let t = |j: usize, k: usize| tag(c, j, k);
    let mut s = Script::new(&format!("c{}", c)).connect("alice", "db", Some("alicepw"));
    match prog {
        "txn" => {
            s = s
                .q(&format!("BEGIN /*{}*/", t(0, 0)))
                .q(&format!("SELECT 1 /*{}*/", t(0, 1)))
                .q(&format!("COMMIT /*{}*/", t(0, 2)))
                .terminate();
        }
        "auto2" => {
            s = s.q(&format!("SELECT 1 /*{}*/", t(0, 0))).q(&format!("SELECT 2 /*{}*/", t(1, 0))).terminate();
        }
        "drop-in-txn" => {
            s = s.q(&format!("BEGIN /*{}*/", t(0, 0))).q(&format!("SELECT 1 /*{}*/", t(0, 1))).close(CloseKind::HardDrop);
        }
        "fin-in-txn" => {
            s = s.q(&format!("BEGIN /*{}*/", t(0, 0))).q(&format!("SELECT 1 /*{}*/", t(0, 1))).close(CloseKind::Fin);
        }
        "srv-error" => {
            s = s.q(&format!("SELECT ERR! /*{}*/", t(0, 0))).q(&format!("SELECT 2 /*{}*/", t(1, 0))).terminate();
        }
        "srv-kill" => {
            s = s.q(&format!("SELECT KILL! /*{}*/", t(0, 0))).q(&format!("SELECT 2 /*{}*/", t(1, 0))).terminate();
        }
        "ext-copyin" => {
            let mut b = wire::parse("", &format!("COPY t FROM STDIN /*{}*/", t(0, 0)), &[]);
            b.extend(wire::bind("", "", &[], &[], &[]));
            b.extend(wire::execute("", 0));
            b.extend(wire::sync());
            let mut end = wire::copy_done();
            end.extend(wire::sync());
            s = s
                .send(b, "P B E S (COPY)")
                .wait(Cond::CodeOrClosed(b'G', 1))
                .send(wire::copy_data(format!("row1 {}\n", t(0, 1)).as_bytes()), "d")
                .send_z(end, "c S")
                .wait(Cond::TimeMs(0));
            if !stay {
                s = s.terminate();
            }
        }
        "copyout-srvfail" => {
            s = s
                .q(&format!("COPY t TO STDOUT /*{} failmid*/", t(0, 0)))
                .wait(Cond::TimeMs(0));
            // stays connected and idle (does not terminate): an idle client must hold nothing
            if !stay {
                s = s.terminate();
            }
        }
        "copyin-srvfail" => {
            s = s
                .send(wire::query(&format!("COPY t FROM STDIN /*{} failatdone*/", t(0, 0))), "Q COPY FROM STDIN")
                .wait(Cond::CodeOrClosed(b'G', 1))
                .send(wire::copy_data(format!("row1 {}\n", t(0, 1)).as_bytes()), "d")
                .send_z(wire::copy_done(), "c")
                .q(&format!("SELECT ERR! /*{}*/", t(1, 0)));
            // stays connected and idle
            if !stay {
                s = s.terminate();
            }
        }
        "copy-abort" => {
            s = s
                .send(wire::query(&format!("COPY t FROM STDIN /*{}*/", t(0, 0))), "Q COPY FROM STDIN")
                .wait(Cond::CodeOrClosed(b'G', 1))
                .send(wire::copy_data(format!("row1 {}\n", t(0, 1)).as_bytes()), "d")
                .close(CloseKind::HardDrop);
        }
        "batch-drop" => {
            let mut b = wire::parse("", &format!("SELECT 1 /*{}*/", t(0, 0)), &[]);
            b.extend(wire::bind("", "", &[], &[Some(t(0, 1).into_bytes())], &[]));
            s = s.q(&format!("BEGIN /*{}*/", t(0, 0))).send(b, "P B (no Sync)").close(CloseKind::HardDrop);
        }
        "exttxn" => {
            let mut b = wire::parse("", &format!("SELECT 1 /*{}*/", t(0, 1)), &[]);
            b.extend(wire::bind("", "", &[], &[Some(t(0, 1).into_bytes())], &[]));
            b.extend(wire::execute("", 0));
            b.extend(wire::sync());
            s = s.q(&format!("BEGIN /*{}*/", t(0, 0))).send_z(b, "P B E S").q(&format!("COMMIT /*{}*/", t(0, 2))).terminate();
        }
        "parse-only-stay" => {
            // with statement caching the second identical Parse is answered by the pooler itself;
            // the client then stays connected and idle: it must hold nothing
            s = s
                .send_z({ let mut b = wire::parse("s1", "SELECT 'shared text'", &[]); b.extend(wire::sync()); b }, "P(s1) S")
                .send_z({ let mut b = wire::parse("s2", "SELECT 'shared text'", &[]); b.extend(wire::sync()); b }, "P(s2, same text) S");
            if !stay {
                s = s.terminate();
            }
        }
        "prep-then-bind-stay" => {
            let mut b = wire::bind("", "s1", &[], &[], &[]);
            b.extend(wire::execute("", 0));
            b.extend(wire::sync());
            s = s
                .send_z({ let mut b = wire::parse("s1", "SELECT 'shared text'", &[]); b.extend(wire::sync()); b }, "P(s1) S")
                .send_z(b, "B(s1) E S")
                .send_z({ let mut b = wire::close(b'S', "s1"); b.extend(wire::sync()); b }, "C(S s1) S");
            if !stay {
                s = s.terminate();
            }
        }
        "srv-reset-idle" => {
            // the server drops its established connections while they sit idle in the pool (restart,
            // failover, idle-session timeout): each dead connection may cost one client error, then
            // capacity must be back
            s = s.q(&format!("SELECT 1 /*{}*/", t(0, 0))).step(Step::KillServerConns("pg-s0-p0:5432".into()));
            for k in 1..=3 {
                s = s
                    .step(Step::Reconnect { user: "alice".into(), db: "db".into(), password: Some("alicepw".into()) })
                    .send(wire::query(&format!("SELECT {} /*{}*/", k + 1, t(k, 0))), &format!("Q SELECT {}", k + 1))
                    .wait(Cond::ReplyOrClosed);
            }
            s = s.step(Step::Reconnect { user: "alice".into(), db: "db".into(), password: Some("alicepw".into()) }).terminate();
        }
        _ => panic!("unknown program {}", prog),
    }
    s
}

fn add_probe(actors: &mut Vec<crate::world::Actor>, pool_size: usize) {
    let n = actors.len();
    let main: Vec<usize> = (0..n).collect();
    // pool_size probe clients open transactions simultaneously and hold them until all are in
    let first = n;
    for i in 0..pool_size {
        let c = first + i;
        let mut s = Script::new(&format!("probe{}", i))
            .wait(Cond::ActorsDone(main.clone()))
            .connect("alice", "db", Some("alicepw"))
            .q(&format!("BEGIN /*{}*/", tag(c, 0, 0)))
            .q(&format!("SELECT 'probe' /*{}*/", tag(c, 0, 1)));
        // barrier: every probe has its transaction open (index of the step after the SELECT's wait = 6)
        for j in 0..pool_size {
            if j != i {
                s = s.wait(Cond::ActorAt(first + j, 6));
            }
        }
        s = s.q(&format!("COMMIT /*{}*/", tag(c, 0, 2))).terminate();
        actors.push(s.actor());
    }
    let all: Vec<usize> = (0..actors.len()).collect();
    actors.push(env("final", vec![Step::Wait(Cond::ActorsDone(all)), Step::Probe]));
}

pub fn scenario(mode: &str, pool_size: u32, progs: &[&str]) -> Scenario {
    let mut pool = PoolCfg::simple("db", mode, pool_size, 1, 0);
    if progs.iter().any(|p| p.ends_with("-stay") && p.starts_with("p")) {
        pool.extra = "prepared_statements_cache_size = 8\n".into();
    }
    let cfg = Cfg::one(pool);
    let mut servers = cfg.servers();
    servers[0].faults.push(Fault { on: Matcher::Contains("KILL!".into()), kind: FaultKind::CloseAfterBytes(40), once: false });
    servers[0].gate = Gate::Off;
    let mut actors: Vec<_> = progs.iter().enumerate().map(|(i, p)| program(i, p, mode == "transaction").actor()).collect();
    // the server-side reset happens once every other client is done, i.e. while all server connections
    // sit idle in the pool; the resetting client's three statements then use up the dead ones
    let n_main = actors.len();
    for (i, p) in progs.iter().enumerate() {
        if *p == "srv-reset-idle" {
            let others: Vec<usize> = (0..n_main).filter(|j| *j != i).collect();
            let k = actors[i].steps.iter().position(|s| matches!(s, Step::KillServerConns(_))).unwrap();
            actors[i].steps.insert(k, Step::Wait(Cond::ActorsDone(others)));
        }
    }
    add_probe(&mut actors, pool_size as usize);
    Scenario {
        name: format!("C04 mode={} pool_size={} progs={}", mode, pool_size, progs.join("+")),
        toml: cfg.toml(),
        alt_tomls: vec![],
        servers,
        actors,
        opts: Opts::default(),
        meta: serde_json::Value::Null,
    }
}

/// pool_size 1: c0 holds the only server in a transaction, c1 queues, the pool is paused, c0 commits, the
/// pool is resumed: c1 must be served, nothing may stay checked out during or after the pause.
pub fn pause_scenario(mode: &str) -> Scenario {
    let cfg = Cfg::one(PoolCfg::simple("db", mode, 1, 1, 0));
    let servers = cfg.servers();
    let c0 = Script::new("c0")
        .connect("alice", "db", Some("alicepw"))
        .q(&format!("BEGIN /*{}*/", tag(0, 0, 0)))
        .q(&format!("SELECT 1 /*{}*/", tag(0, 0, 1)))
        .wait(Cond::ActorAt(2, 2))
        .q(&format!("COMMIT /*{}*/", tag(0, 0, 2)))
        .terminate();
    let c1 = Script::new("c1").connect("alice", "db", Some("alicepw")).wait(Cond::ActorAt(0, 5)).q(&format!("SELECT 1 /*{}*/", tag(1, 0, 0))).q(&format!("SELECT 2 /*{}*/", tag(1, 1, 0))).terminate();
    let admin = env("admin", vec![Step::Wait(Cond::ActorAt(1, 3)), Step::Admin("PAUSE".into()), Step::Wait(Cond::ActorsDone(vec![0])), Step::Probe, Step::Admin("RESUME".into())]);
    let mut actors = vec![c0.actor(), c1.actor(), admin];
    add_probe(&mut actors, 1);
    Scenario {
        name: format!("C04 mode={} pool_size=1 progs=pause-queued", mode),
        toml: cfg.toml(),
        alt_tomls: vec![],
        servers,
        actors,
        opts: Opts::default(),
        meta: serde_json::Value::Null,
    }
}

/// c0 holds the only connection past connect_timeout; c1 must get the pool error, stay usable, and be served later.
pub fn timeout_scenario(mode: &str, limit: Option<u64>) -> Scenario {
    let mut pool = PoolCfg::simple("db", mode, 1, 1, 0);
    if let Some(l) = limit {
        pool.extra = format!("checkout_failure_limit = {}\n", l);
    }
    let cfg = Cfg::one(pool);
    let servers = cfg.servers();
    let c0 = Script::new("c0")
        .connect("alice", "db", Some("alicepw"))
        .q(&format!("BEGIN /*{}*/", tag(0, 0, 0)))
        .wait(Cond::TimeMs(13_000))
        .q(&format!("COMMIT /*{}*/", tag(0, 0, 1)))
        .terminate();
    let c1 = Script::new("c1")
        .connect("alice", "db", Some("alicepw"))
        .wait(Cond::ActorAt(0, 3))
        .q(&format!("SELECT 1 /*{}*/", tag(1, 0, 0)))
        .q(&format!("SELECT 2 /*{}*/", tag(1, 1, 0)))
        .wait(Cond::ActorsDone(vec![0]))
        .q(&format!("SELECT 3 /*{}*/", tag(1, 2, 0)))
        .terminate();
    let mut actors = vec![c0.actor(), c1.actor()];
    add_probe(&mut actors, 1);
    Scenario {
        name: format!("C04 mode={} pool_size=1 progs=hold+wait-timeout limit={:?}", mode, limit),
        toml: cfg.toml(),
        alt_tomls: vec![],
        servers,
        actors,
        opts: Opts::default(),
        meta: serde_json::Value::Null,
    }
}

/// The same on a sharded pool whose clients ask for replicas (two shards, one primary and one replica
/// each): the waiter's timeout bans the only replica of shard 0; once the holder is done the shard must
/// serve again ("all replicas of the shard are banned" lifts the bans), for old and new clients.
pub fn timeout_scenario_sharded() -> Scenario {
    let mut pool = PoolCfg::sharded("db", "transaction", 1, 2, 1, 1);
    pool.extra = format!("{}default_role = \"replica\"\n", pool.extra);
    let cfg = Cfg::one(pool);
    let servers = cfg.servers();
    let c0 = Script::new("c0")
        .connect("alice", "db", Some("alicepw"))
        .q("SET SHARD TO '0'")
        .q(&format!("BEGIN /*{}*/", tag(0, 0, 0)))
        .wait(Cond::TimeMs(13_000))
        .q(&format!("COMMIT /*{}*/", tag(0, 0, 1)))
        .terminate();
    let c1 = Script::new("c1")
        .connect("alice", "db", Some("alicepw"))
        .q("SET SHARD TO '0'")
        .wait(Cond::ActorAt(0, 5))
        .q(&format!("SELECT 1 /*{}*/", tag(1, 0, 0)))
        .wait(Cond::ActorsDone(vec![0]))
        .q(&format!("SELECT 3 /*{}*/", tag(1, 2, 0)))
        .q(&format!("SELECT 4 /*{}*/", tag(1, 3, 0)))
        .terminate();
    let c2 = Script::new("c2")
        .wait(Cond::ActorsDone(vec![0, 1]))
        .connect("alice", "db", Some("alicepw"))
        .q("SET SHARD TO '0'")
        .q(&format!("SELECT 5 /*{}*/", tag(2, 0, 0)))
        .terminate();
    let actors = vec![c0.actor(), c1.actor(), c2.actor()];
    Scenario {
        name: "C04 mode=transaction pool_size=1 progs=hold+wait-timeout-sharded-replicas".to_string(),
        toml: cfg.toml(),
        alt_tomls: vec![],
        servers,
        actors,
        opts: Opts::default(),
        meta: serde_json::json!({"must_serve": ["c1.t2.s0", "c1.t3.s0", "c2.t0.s0"]}),
    }
}

pub fn oracle(sc: &Scenario, out: &Outcome) -> Vec<Violation> {
    let log = &out.log;
    let mut vs = Vec::new();
    if let Some(ms) = sc.meta.get("must_serve").and_then(|m| m.as_array()) {
        // statements sent when nothing is in use any more must be served
        for t in ms {
            let t = t.as_str().unwrap();
            let ran = log.iter().any(|e| matches!(&e.rec, Rec::BExec { sql, .. } if sql.contains(t)));
            if !ran {
                let errs: Vec<String> = log
                    .iter()
                    .filter_map(|e| match &e.rec {
                        Rec::CRecv { msg, .. } if msg.code == b'E' => msg.err_field(b'M'),
                        _ => None,
                    })
                    .collect();
                vs.push(v(
                    "C04.capacity-lost",
                    format!("C04.capacity-lost:{}", sc.name.split("progs=").nth(1).unwrap_or("")),
                    format!("statement {} was sent when no server connection was in use any more and was not served; errors seen: {:?}", t, errs),
                ));
            }
        }
        // never more than pool_size connections per server
        let mut open: BTreeMap<String, i64> = BTreeMap::new();
        let mut server_of: BTreeMap<usize, String> = BTreeMap::new();
        for e in log {
            match &e.rec {
                Rec::BAccept { conn, server } => {
                    *open.entry(server.clone()).or_insert(0) += 1;
                    server_of.insert(*conn, server.clone());
                    if open[server] > 1 {
                        vs.push(v("C04.pool-size", "C04.pool-size:sharded".to_string(), format!("{} has {} connections open with pool_size 1", server, open[server])));
                    }
                }
                Rec::BClose { conn, .. } => {
                    if let Some(sv) = server_of.get(conn) {
                        *open.entry(sv.clone()).or_insert(0) -= 1;
                    }
                }
                _ => {}
            }
        }
        if out.blocked {
            vs.push(v("C04.blocked", "C04.blocked:sharded".to_string(), blocked_note(log).unwrap_or_default()));
        }
        return vs;
    }
    let pool_size: usize = sc.name.split_whitespace().find_map(|w| w.strip_prefix("pool_size=")).and_then(|x| x.parse().ok()).unwrap_or(1);
    let progs = sc.name.split_whitespace().find_map(|w| w.strip_prefix("progs=")).unwrap_or("").to_string();
    let mode = sc.name.split_whitespace().find_map(|w| w.strip_prefix("mode=")).unwrap_or("").to_string();
    let ctx = format!("{}:{}", mode, progs);

    // (1) at every quiescent point, open backend connections per server <= pool_size
    let mut open: BTreeMap<String, i64> = BTreeMap::new();
    let mut server_of: BTreeMap<usize, String> = BTreeMap::new();
    let mut cancels: Vec<usize> = Vec::new();
    for e in log {
        match &e.rec {
            Rec::BAccept { conn, server } => {
                *open.entry(server.clone()).or_insert(0) += 1;
                server_of.insert(*conn, server.clone());
            }
            Rec::BCancel { conn, .. } => {
                cancels.push(*conn);
                if let Some(s) = server_of.get(conn) {
                    *open.get_mut(s).unwrap() -= 1;
                }
            }
            Rec::BClose { conn, .. } => {
                if !cancels.contains(conn) {
                    if let Some(s) = server_of.get(conn) {
                        *open.get_mut(s).unwrap() -= 1;
                    }
                }
            }
            Rec::Event { idx, .. } => {
                for (s, n) in &open {
                    if *n > pool_size as i64 {
                        vs.push(v(
                            "C04.bound",
                            format!("C04.bound:{}", ctx),
                            format!("before event {}: {} open server connections to {} with pool_size {}", idx, n, s, pool_size),
                        ));
                    }
                }
            }
            _ => {}
        }
    }

    // (2) everybody finishes
    if out.blocked {
        vs.push(v("C04.blocked", format!("C04.blocked:{}", ctx), format!("run did not complete: {}", blocked_note(log).unwrap_or_default())));
        return vs;
    }

    // (3) every statement a client sent got its own result, a server error, or a pooler error
    // (checked for probes strictly: they must get results, with no pooler error and no waiting)
    let nact = sc.actors.len();
    let first_probe = nact - 1 - pool_size;
    let mut probe_start_ms = None;
    let mut probe_end_ms = 0u64;
    for e in log {
        if let Rec::Event { actor, .. } = &e.rec {
            if actor.starts_with("probe") {
                if probe_start_ms.is_none() {
                    probe_start_ms = Some(e.t_ms);
                }
                probe_end_ms = e.t_ms;
            }
        }
    }
    for p in first_probe..nact - 1 {
        let msgs = client_msgs(log, p);
        let rows = msgs.iter().filter(|(_, m)| m.code == b'D').count();
        let errs: Vec<String> = msgs.iter().filter(|(_, m)| m.code == b'E').map(|(_, m)| m.err_field(b'M').unwrap_or_default()).collect();
        if rows != 1 || !errs.is_empty() {
            vs.push(v(
                "C04.capacity",
                format!("C04.capacity:{}", ctx),
                format!("after the history, probe client {} (one of pool_size={} simultaneous transactions) was not served: rows={} errors={:?}", p, pool_size, rows, errs),
            ));
        }
    }
    if let Some(st) = probe_start_ms {
        if probe_end_ms.saturating_sub(st) > 1500 {
            vs.push(v(
                "C04.capacity-wait",
                format!("C04.capacity-wait:{}", ctx),
                format!("probe phase needed {} ms of virtual time: a timer had to fire before full capacity was available", probe_end_ms - st),
            ));
        }
    }

    // (4) final pooler-side state
    if let Some(data) = log.iter().rev().find_map(|e| if let Rec::Probe { data } = &e.rec { Some(data.clone()) } else { None }) {
        let j: serde_json::Value = serde_json::from_str(&data).unwrap();
        for p in j["pools"].as_array().unwrap() {
            let c = p["connections"].as_u64().unwrap();
            let i = p["idle"].as_u64().unwrap();
            if c > pool_size as u64 {
                vs.push(v("C04.bound-final", format!("C04.bound-final:{}", ctx), format!("bb8 reports {} connections for pool_size {}", c, pool_size)));
            }
            if c != i {
                vs.push(v(
                    "C04.leak",
                    format!("C04.leak:{}", ctx),
                    format!("after all non-idle clients left, {} of {} server connections are still checked out ({})", c - i, c, p),
                ));
            }
        }
        for s in j["servers"].as_array().unwrap() {
            if s["state"] == "active" {
                vs.push(v("C04.active-server", format!("C04.active-server:{}", ctx), format!("server connection still marked active at the end: {}", s)));
            }
        }
        if j["csm"].as_u64().unwrap() != 0 {
            vs.push(v("C04.csm", format!("C04.csm:{}", ctx), format!("client_server_map still has {} entries with no client holding a server", j["csm"])));
        }
    }

    // (4b) paused pool: the queued client is served after RESUME, and while the pool is paused (probe taken
    // after the holder has left) nobody holds a server
    if progs == "pause-queued" {
        for c in 0..2 {
            let errs: Vec<String> = client_msgs(log, c).iter().filter(|(_, m)| m.code == b'E').map(|(_, m)| m.err_field(b'M').unwrap_or_default()).collect();
            if !errs.is_empty() {
                vs.push(v("C04.waiter", format!("C04.waiter-not-served:{}", ctx), format!("client {} waited for a server across PAUSE/RESUME and got {:?} instead of being served", c, errs)));
            }
        }
        if let Some(data) = log.iter().find_map(|e| if let Rec::Probe { data } = &e.rec { Some(data.clone()) } else { None }) {
            let j: serde_json::Value = serde_json::from_str(&data).unwrap();
            for p in j["pools"].as_array().unwrap() {
                let (c, i) = (p["connections"].as_u64().unwrap(), p["idle"].as_u64().unwrap());
                if c != i {
                    vs.push(v("C04.leak", format!("C04.leak-while-paused:{}", ctx), format!("while the pool is paused and no transaction is open, {} of {} server connections are checked out", c - i, c)));
                }
            }
        }
    }

    // (5) waiters: a client that got the pool error stays usable and is served later
    if progs.starts_with("hold+wait-timeout") {
        let msgs = client_msgs(log, 1);
        let limit_none = sc.name.contains("limit=None");
        let pool_errs = msgs.iter().filter(|(_, m)| m.code == b'E' && m.err_field(b'M').unwrap_or_default().contains("could not get connection from the pool")).count();
        let rows: Vec<String> = msgs.iter().filter(|(_, m)| m.code == b'D').filter_map(|(_, m)| m.row_cols().get(2).cloned().flatten()).map(|b| String::from_utf8_lossy(&b).to_string()).collect();
        if limit_none {
            if pool_errs != 2 || rows.len() != 1 || !rows[0].contains("c1.t2.s0") {
                vs.push(v(
                    "C04.waiter",
                    format!("C04.waiter:{}", ctx),
                    format!("waiter expected 2 pool errors then its third statement served; got {} pool errors, rows {:?}", pool_errs, rows),
                ));
            }
        } else {
            // checkout_failure_limit = 2: disconnected after the second failure
            let eof = log.iter().any(|e| matches!(&e.rec, Rec::CEof { c } if *c == 1));
            if pool_errs != 2 || !eof {
                vs.push(v(
                    "C04.waiter-limit",
                    format!("C04.waiter-limit:{}", ctx),
                    format!("with checkout_failure_limit=2 expected 2 pool errors then disconnect; got {} errors, eof={}", pool_errs, eof),
                ));
            }
        }
    }
    vs
}

pub fn build(tier: &str) -> SimCheck {
    let thorough = tier == "thorough";
    let mut scenarios = Vec::new();
    for mode in ["transaction", "session"] {
        for pool_size in [1u32, 2] {
            let n = pool_size as usize + 1;
            // every program next to plain transactions
            for p in PROGRAMS {
                let mut progs = vec![*p];
                while progs.len() < n {
                    progs.push("txn");
                }
                scenarios.push(scenario(mode, pool_size, &progs));
                if thorough {
                    let mut progs2 = vec!["txn", *p];
                    while progs2.len() < n + 1 {
                        progs2.push("auto2");
                    }
                    scenarios.push(scenario(mode, pool_size, &progs2));
                }
            }
            // pairs of failing programs
            let bad = ["drop-in-txn", "fin-in-txn", "srv-kill", "copy-abort", "batch-drop", "copyout-srvfail", "copyin-srvfail"];
            for (i, a) in bad.iter().enumerate() {
                for b in bad.iter().skip(i) {
                    if !thorough && (i % 2 == 1) {
                        continue;
                    }
                    let mut progs = vec![*a, *b];
                    while progs.len() < n {
                        progs.push("txn");
                    }
                    scenarios.push(scenario(mode, pool_size, &progs));
                }
            }
        }
        scenarios.push(timeout_scenario(mode, None));
        scenarios.push(timeout_scenario(mode, Some(2)));
    }
    scenarios.push(timeout_scenario_sharded());
    scenarios.push(pause_scenario("transaction"));
    scenarios.push(pause_scenario("session"));
    SimCheck {
        scenarios,
        oracle: Box::new(oracle),
        bound: if thorough { 3 } else { 2 },
        limits: Limits { max_wall_s: if thorough { 1500.0 } else { 150.0 }, ..Default::default() },
        rule: "scenario = pool mode x pool_size {1,2} x (pool_size+1 or +2) client programs (normal, aborts by hard drop/FIN mid-transaction, mid-COPY, mid-batch, server-side errors, server closing mid-reply, server-failed COPY, server dropping its idle pooled connections, extended-protocol batches answered from the statement cache by clients that then stay idle) plus a client queued for the only server across PAUSE / RESUME, plus hold-past-connect_timeout with/without checkout_failure_limit; all schedules with <= bound deviations; then pool_size simultaneous probe transactions and a pooler-state probe; distinct = distinct end-to-end histories".into(),
        assumptions: vec![
            "connections are counted on the reference backend's side (accepted minus closed) at quiescent points".into(),
            "hung servers belong to C07's alphabet".into(),
        ],
    }
}
