//! C14 — live reload is safe: valid configs take effect, invalid ones change nothing.

use super::common::*;
use super::SimCheck;
use crate::cfg::{env, Cfg, PoolCfg, Script, UserCfg};
use crate::explore::{Limits, Violation};
use crate::mockpg::{Rec, ServerSpec};
use crate::world::{Cond, Opts, Outcome, Scenario, Step};
use std::collections::BTreeMap;

pub const VARIANTS: &[&str] = &[
    "base", "identical", "pool-added", "pool-removed", "server-changed", "password-changed", "pool-size-changed", "mode-changed", "general-changed", "invalid-toml", "invalid-two-primaries", "invalid-default-role", "with-replica", "roles-swapped",
    "parser-with-replica", "parser-roles-swapped", "parser-default-replica",
    "invalid-default-shard", "invalid-rw-split-without-parser", "invalid-shard-regex", "invalid-auto-sharding-key", "invalid-plugins-without-parser",
];

fn is_valid(v: &str) -> bool {
    !v.starts_with("invalid")
}

fn pool(name: &str, host: &str, user: &str, pw: &str, size: u32, mode: &str) -> PoolCfg {
    let mut p = PoolCfg::simple(name, mode, size, 1, 0);
    p.shards[0].servers = vec![(host.to_string(), 5432, "primary".to_string())];
    p.shards[0].database = format!("{}_pg", name);
    p.users = vec![UserCfg { username: user.into(), password: Some(pw.into()), pool_size: size, extra: String::new() }];
    p
}

/// (toml, pool -> host map of this definition)
pub fn variant(v: &str) -> (String, BTreeMap<String, String>) {
    let mut pools = vec![pool("db", "pg-a", "alice", "alicepw", 2, "transaction"), pool("db2", "pg-b", "alice", "alicepw", 2, "transaction")];
    let mut cfg_general = String::new();
    match v {
        "base" | "identical" => {}
        "pool-added" => pools.push(pool("db3", "pg-c", "alice", "alicepw", 2, "transaction")),
        "pool-removed" => {
            pools.pop();
        }
        "server-changed" => pools[0] = pool("db", "pg-alt", "alice", "alicepw", 2, "transaction"),
        "password-changed" => pools[0] = pool("db", "pg-a", "alice", "newpw", 2, "transaction"),
        "pool-size-changed" => pools[0] = pool("db", "pg-a", "alice", "alicepw", 1, "transaction"),
        "mode-changed" => pools[0] = pool("db", "pg-a", "alice", "alicepw", 2, "session"),
        "general-changed" => cfg_general = "log_client_connections = true\n".into(),
        // a failover: same hosts, primary and replica trade places (default_role = primary)
        "with-replica" => {
            pools[0].shards[0].servers = vec![("pg-a".into(), 5432, "primary".into()), ("pg-a2".into(), 5432, "replica".into())];
            pools[0].extra = "default_role = \"primary\"\n".into();
        }
        "roles-swapped" => {
            pools[0].shards[0].servers = vec![("pg-a".into(), 5432, "replica".into()), ("pg-a2".into(), 5432, "primary".into())];
            pools[0].extra = "default_role = \"primary\"\n".into();
        }
        // the same failover on a pool that parses statements without splitting reads and writes
        "parser-with-replica" => {
            pools[0].shards[0].servers = vec![("pg-a".into(), 5432, "primary".into()), ("pg-a2".into(), 5432, "replica".into())];
            pools[0].extra = "default_role = \"primary\"\nquery_parser_enabled = true\nquery_parser_read_write_splitting = false\n".into();
        }
        "parser-roles-swapped" => {
            pools[0].shards[0].servers = vec![("pg-a".into(), 5432, "replica".into()), ("pg-a2".into(), 5432, "primary".into())];
            pools[0].extra = "default_role = \"primary\"\nquery_parser_enabled = true\nquery_parser_read_write_splitting = false\n".into();
        }
        // same servers as parser-with-replica, the default role moves to the replica
        "parser-default-replica" => {
            pools[0].shards[0].servers = vec![("pg-a".into(), 5432, "primary".into()), ("pg-a2".into(), 5432, "replica".into())];
            pools[0].extra = "default_role = \"replica\"\nquery_parser_enabled = true\nquery_parser_read_write_splitting = false\n".into();
        }
        "invalid-two-primaries" => pools[0].shards[0].servers.push(("pg-a2".into(), 5432, "primary".into())),
        "invalid-default-role" => pools[0].extra = "default_role = \"leader\"\n".into(),
        "invalid-toml" => {}
        // one past the last shard (the pool has exactly one shard: number 0)
        "invalid-default-shard" => pools[0].extra = "default_shard = \"shard_1\"\n".into(),
        "invalid-rw-split-without-parser" => pools[0].extra = "query_parser_enabled = false\nquery_parser_read_write_splitting = true\n".into(),
        "invalid-shard-regex" => pools[0].extra = "shard_id_regex = \"(unclosed\"\n".into(),
        "invalid-auto-sharding-key" => pools[0].extra = "automatic_sharding_key = \"id\"\n".into(),
        "invalid-plugins-without-parser" => {
            pools[0].extra = "query_parser_enabled = false\n".into();
            pools[0].plugins = "[pools.db.plugins.table_access]\nenabled = true\ntables = [\"t\"]\n".into();
        }
        _ => panic!("variant"),
    }
    // where a pool's transactions go: its primary (every variant routes to the primary)
    let map: BTreeMap<String, String> = pools
        .iter()
        .map(|p| {
            let srv = &p.shards[0].servers;
            let want = if p.extra.contains("default_role = \"replica\"") { "replica" } else { "primary" };
            (p.name.clone(), srv.iter().find(|s| s.2 == want).unwrap_or(&srv[0]).0.clone())
        })
        .collect();
    let mut cfg = Cfg { pools, ..Default::default() };
    cfg.general_extra = cfg_general;
    let mut toml = cfg.toml();
    if v == "identical" {
        toml = format!("# rewritten, same content\n{}\n", toml);
    }
    if v == "invalid-toml" {
        toml = format!("{}\n[pools.db\nthis is = not toml\n", toml);
    }
    (toml, map)
}

fn client(c: usize, db: &str, ntx: usize) -> Script {
    let mut s = Script::new(&format!("c{}", c)).connect("alice", db, Some("alicepw"));
    for j in 0..ntx {
        if j % 2 == 0 {
            s = s
                .q(&format!("BEGIN /*{}*/", tag(c, j, 0)))
                .q(&format!("SELECT 1 /*{}*/", tag(c, j, 1)))
                .q(&format!("COMMIT /*{}*/", tag(c, j, 2)));
        } else {
            s = s.q(&format!("SELECT 2 /*{}*/", tag(c, j, 0)));
        }
    }
    s.terminate()
}

pub fn scenario(old: &str, new: &str, via: &str) -> Scenario {
    let (old_toml, _) = variant(old);
    let (new_toml, _) = variant(new);
    let mut servers: Vec<ServerSpec> = Vec::new();
    for h in ["pg-a", "pg-b", "pg-c", "pg-alt", "pg-a2"] {
        servers.push(ServerSpec::new(&format!("{}:5432", h), h));
    }
    let reload_steps: Vec<Step> = match via {
        "admin" => vec![Step::Probe, Step::WriteConfig(0), Step::Admin("RELOAD".into()), Step::Probe],
        _ => vec![Step::Probe, Step::ReloadSighup(0), Step::Wait(Cond::TimeMs(0)), Step::Probe],
    };
    // a late client connects after everything else with the old password: tells whether a password change took effect
    let late = Script::new("late")
        .wait(Cond::ActorsDone(vec![0, 1, 2]))
        .connect("alice", "db", Some("alicepw"))
        .q(&format!("SELECT 3 /*{}*/", tag(3, 0, 0)))
        .terminate();
    Scenario {
        name: format!("C14 old={} new={} via={}", old, new, via),
        toml: old_toml,
        alt_tomls: vec![new_toml],
        servers,
        actors: vec![client(0, "db", 3).actor(), client(1, "db2", 3).actor(), env("reload", reload_steps), late.actor()],
        opts: Opts::default(),
        meta: serde_json::json!({"old": old, "new": new, "via": via}),
    }
}

/// A valid file whose pools cannot be built at the moment of the reload (the new server is down and
/// `min_pool_size` asks for a connection): once the server is reachable, a repeated RELOAD of the same
/// file must put the new definition into effect.
pub fn retry_scenario(via: &str) -> Scenario {
    let (old_toml, _) = variant("base");
    let mut pools = vec![pool("db", "pg-alt", "alice", "alicepw", 2, "transaction"), pool("db2", "pg-b", "alice", "alicepw", 2, "transaction")];
    pools[0].users[0].extra = "min_pool_size = 1\n".into();
    let mut cfg = Cfg { pools, ..Default::default() };
    cfg.connect_timeout = 1000;
    let new_toml = cfg.toml();
    let mut servers: Vec<ServerSpec> = Vec::new();
    for h in ["pg-a", "pg-b", "pg-alt"] {
        let mut sp = ServerSpec::new(&format!("{}:5432", h), h);
        if h == "pg-alt" {
            sp.accept = crate::mockpg::Accept::Refuse;
        }
        servers.push(sp);
    }
    let reload = |v: &str| -> Vec<Step> {
        match v {
            "admin" => vec![Step::Admin("RELOAD".into())],
            _ => vec![Step::ReloadSighup(0), Step::Wait(Cond::TimeMs(0))],
        }
    };
    let mut steps = vec![Step::WriteConfig(0)];
    steps.extend(reload(via));
    steps.push(Step::Call(
        "pg-alt comes up".into(),
        std::sync::Arc::new(|n| {
            n.servers.get_mut("pg-alt:5432").unwrap().accept = crate::mockpg::Accept::Up;
        }),
    ));
    steps.extend(reload(via));
    steps.push(Step::Probe);
    let late = Script::new("late").wait(Cond::ActorsDone(vec![0])).connect("alice", "db", Some("alicepw")).q(&format!("SELECT 3 /*{}*/", tag(1, 0, 0))).terminate();
    Scenario {
        name: format!("C14 retry old=base new=server-changed+min_pool_size via={}", via),
        toml: old_toml,
        alt_tomls: vec![new_toml],
        servers,
        actors: vec![env("reload", steps), late.actor()],
        opts: Opts { horizon_ms: 60_000, ..Opts::default() },
        meta: serde_json::json!({"retry": true, "via": via}),
    }
}

fn retry_oracle(sc: &Scenario, out: &Outcome) -> Vec<Violation> {
    let log = &out.log;
    let mut vs = Vec::new();
    let via = sc.meta["via"].as_str().unwrap();
    if out.blocked {
        vs.push(v("C14.blocked", format!("C14.blocked:retry:via={}", via), blocked_note(log).unwrap_or_default()));
        return vs;
    }
    // where did the late client's statement run?
    let ran_on: Vec<String> = log
        .iter()
        .filter_map(|e| match &e.rec {
            Rec::BRecv { conn, msg, .. } if msg_tag(msg).map(|t| t.c == 1).unwrap_or(false) => Some(conn_server(log, *conn)),
            _ => None,
        })
        .collect();
    let errs: Vec<String> = client_msgs(log, 1).iter().filter(|(_, m)| m.code == b'E').map(|(_, m)| m.err_field(b'M').unwrap_or_default()).collect();
    if ran_on.iter().any(|s| !s.starts_with("pg-alt")) || ran_on.is_empty() {
        vs.push(v(
            "C14.new-definition-not-in-effect",
            format!("C14.new-definition-not-in-effect:retry-after-failed-apply:via={}", via),
            format!(
                "the file naming pg-alt was reloaded twice (the second time with pg-alt reachable), yet a transaction started afterwards ran on {:?} (errors {:?}): the first, failed application already replaced the stored configuration, so the retry saw no change",
                ran_on, errs
            ),
        ));
    }
    vs
}

pub fn oracle(sc: &Scenario, out: &Outcome) -> Vec<Violation> {
    if sc.meta.get("retry").is_some() {
        return retry_oracle(sc, out);
    }
    let log = &out.log;
    let mut vs = Vec::new();
    let old = sc.meta["old"].as_str().unwrap();
    let new = sc.meta["new"].as_str().unwrap();
    let via = sc.meta["via"].as_str().unwrap();
    let ctx = format!("old={}:new={}:via={}", old, new, via);
    let (_, old_map) = variant(old);
    let (_, new_map) = variant(new);
    let valid = is_valid(new);
    if out.blocked {
        vs.push(v("C14.blocked", format!("C14.blocked:{}", ctx), blocked_note(log).unwrap_or_default()));
        return vs;
    }
    // reload window: from the reload actor's first event to its second probe
    let probes: Vec<(usize, serde_json::Value)> = log
        .iter()
        .filter_map(|e| match &e.rec {
            Rec::Probe { data } => Some((e.seq, serde_json::from_str(data).unwrap())),
            _ => None,
        })
        .collect();
    if probes.len() < 2 {
        return vs;
    }
    let (r_start, before) = (&probes[0].0, &probes[0].1);
    let (r_done, after) = (&probes[1].0, &probes[1].1);
    if !valid {
        if before["config_hash"] != after["config_hash"] {
            vs.push(v("C14.config-changed", format!("C14.config-changed:{}", ctx), "an invalid file changed the configuration reported by get_config()".into()));
        }
    }
    // connections closed by the pooler from the reload on (nothing else in these scenarios makes the pooler close
    // a server connection: servers are healthy, clients finish their transactions, lifetimes are long). A pool
    // that is rebuilt although nothing it is built from changed loses its connections (and its bans) only when
    // the last client lets go of the old pool object, i.e. after the reload window.
    for e in log.iter().filter(|e| e.seq > *r_start) {
        match &e.rec {
            // (the pooler closes a server connection by Terminate, which the backend logs as its own close,
            // or by dropping it; the backends of these scenarios never close on their own)
            Rec::BClose { conn, .. } => {
                let srv = conn_server(log, *conn);
                let host = srv.split(':').next().unwrap_or("").to_string();
                // a pool whose definition (its own section of the file) is unchanged keeps its connections
                let section = |toml: &str, pool: &str| -> String {
                    let head = format!("[pools.{}", pool);
                    let mut keep = false;
                    let mut out = String::new();
                    for line in toml.lines() {
                        if line.starts_with('[') {
                            keep = line.starts_with(&format!("{}]", head)) || line.starts_with(&format!("{}.", head));
                        }
                        if keep {
                            out.push_str(line);
                            out.push('\n');
                        }
                    }
                    out
                };
                let (old_toml, new_toml) = (variant(old).0, variant(new).0);
                let unchanged_hosts: Vec<&String> = old_map
                    .iter()
                    .filter(|(p, h)| new_map.get(*p) == Some(h) && section(&old_toml, p) == section(&new_toml, p))
                    .map(|(_, h)| h)
                    .collect();
                if !valid || unchanged_hosts.contains(&&host) {
                    vs.push(v(
                        "C14.connection-closed",
                        format!("C14.connection-closed:{}", ctx),
                        format!("server connection {} to {} was closed by the reload although its pool did not change / the file was invalid", conn, srv),
                    ));
                }
            }
            Rec::BAccept { conn, server } if !valid => {
                // only client activity may open connections; inside the atomic reload steps none runs
                let _ = (conn, server);
            }
            _ => {}
        }
    }
    // per transaction expectations
    let mut first_send: BTreeMap<(usize, usize), usize> = BTreeMap::new();
    for e in log {
        if let Rec::CSend { c, bytes } = &e.rec {
            if let Some(t) = find_tag(bytes) {
                first_send.entry((*c, t.t)).or_insert(e.seq);
            }
        }
    }
    let pool_of = |c: usize| if c == 1 { "db2" } else { "db" };
    for ((c, t), s0) in &first_send {
        if *c > 1 {
            continue;
        }
        let pool = pool_of(*c);
        let hosts: Vec<String> = log
            .iter()
            .filter_map(|e| match &e.rec {
                Rec::BRecv { conn, msg, .. } if msg_tag(msg).map(|x| x.c == *c && x.t == *t).unwrap_or(false) => Some(conn_server(log, *conn).split(':').next().unwrap_or("").to_string()),
                _ => None,
            })
            .collect();
        let errors: Vec<String> = {
            // errors received by this client between this transaction's first send and the next transaction's first send
            let end = first_send.get(&(*c, t + 1)).copied().unwrap_or(usize::MAX);
            log.iter()
                .filter(|e| e.seq > *s0 && e.seq < end)
                .filter_map(|e| match &e.rec {
                    Rec::CRecv { c: cc, msg } if cc == c && msg.code == b'E' => Some(msg.err_field(b'M').unwrap_or_default()),
                    _ => None,
                })
                .collect()
        };
        let started_before = s0 < r_start;
        let started_after = s0 > r_done;
        if started_before || !valid {
            // old definition, and never broken by the reload
            let want = old_map.get(pool).cloned().unwrap_or_default();
            if !errors.is_empty() {
                vs.push(v(
                    "C14.transaction-broken",
                    format!("C14.transaction-broken:{}:{}", if started_before { "in-progress" } else { "after-invalid" }, ctx),
                    format!("transaction {} of client {} on pool {} got errors {:?}", t, c, pool, errors),
                ));
            }
            if hosts.iter().any(|h| *h != want) && (!valid || started_before) && !(valid && !started_before) {
                vs.push(v("C14.old-def-not-used", format!("C14.old-def-not-used:{}", ctx), format!("transaction {} of client {} ran on {:?}, old definition says {}", t, c, hosts, want)));
            }
        } else if started_after && valid {
            match new_map.get(pool) {
                Some(want) => {
                    if hosts.iter().any(|h| h != want) {
                        vs.push(v(
                            "C14.stale-definition",
                            format!("C14.stale-definition:{}", ctx),
                            format!("transaction {} of client {} started after the reload but ran on {:?}; the new definition of pool {} says {}", t, c, hosts, pool, want),
                        ));
                    }
                    if hosts.is_empty() && errors.is_empty() {
                        vs.push(v("C14.lost", format!("C14.lost:{}", ctx), format!("transaction {} of client {} neither ran nor failed", t, c)));
                    }
                }
                None => {
                    // pool removed: an error, and nothing reaches any backend
                    if !hosts.is_empty() {
                        vs.push(v(
                            "C14.removed-pool-served",
                            format!("C14.removed-pool-served:{}", ctx),
                            format!("pool {} was removed, yet transaction {} of client {} started afterwards ran on {:?}", pool, t, c, hosts),
                        ));
                    }
                }
            }
        }
    }
    // the password change is in effect for new logins
    if valid && new == "password-changed" {
        let late_rows = client_msgs(log, 3).iter().filter(|(_, m)| m.code == b'D').count();
        if late_rows > 0 {
            vs.push(v("C14.old-password-accepted", format!("C14.old-password-accepted:{}", ctx), "a client logging in after the reload with the old password was admitted".into()));
        }
    }
    if valid && new == "pool-added" {
        // tested by the enum of transactions above for existing pools; the new pool must exist
        if let Some(p) = after["pools"].as_array() {
            if !p.iter().any(|x| x["db"] == "db3") {
                vs.push(v("C14.pool-not-added", format!("C14.pool-not-added:{}", ctx), "pool db3 is not present after the reload".into()));
            }
        }
    }
    vs
}

pub fn build(tier: &str) -> SimCheck {
    let thorough = tier == "thorough";
    let mut scenarios = Vec::new();
    for via in ["admin", "sighup"] {
        for new in VARIANTS {
            if *new == "base" {
                continue;
            }
            scenarios.push(scenario("base", new, via));
        }
        // from non-initial definitions
        let pairs: Vec<(&str, &str)> = if thorough {
            vec![("server-changed", "base"), ("pool-removed", "base"), ("pool-added", "base"), ("mode-changed", "base"), ("server-changed", "invalid-toml"), ("pool-removed", "invalid-two-primaries"), ("password-changed", "identical")]
        } else {
            vec![("server-changed", "base"), ("pool-removed", "base"), ("server-changed", "invalid-toml")]
        };
        for (o, n) in pairs {
            scenarios.push(scenario(o, n, via));
        }
        // a change of roles only
        scenarios.push(scenario("with-replica", "roles-swapped", via));
        scenarios.push(scenario("roles-swapped", "with-replica", via));
        scenarios.push(scenario("parser-with-replica", "parser-roles-swapped", via));
        scenarios.push(scenario("parser-with-replica", "parser-default-replica", via));
        scenarios.push(scenario("parser-default-replica", "parser-with-replica", via));
    }
    scenarios.push(retry_scenario("admin"));
    scenarios.push(retry_scenario("sighup"));
    SimCheck {
        scenarios,
        oracle: Box::new(oracle),
        bound: if thorough { 3 } else { 2 },
        limits: Limits { max_wall_s: if thorough { 1500.0 } else { 150.0 }, ..Default::default() },
        rule: "scenario = (old, new) configuration pair (identical rewrite, pool added / removed, server list / password / pool_size / pool_mode / general setting changed, invalid TOML, two primaries, bad default_role, default_shard one past the last shard, read/write splitting or plugins without the parser, unparsable shard regex, unqualified automatic sharding key; failover and default_role change on a pool that parses statements without read/write splitting; also from non-initial definitions) x RELOAD via the admin console or via the SIGHUP path; two clients on an affected and an unaffected pool run three transactions each, a late client logs in afterwards; the reload is placed at every point of their schedules with <= bound deviations".into(),
        assumptions: vec!["the SIGHUP path is exercised by calling reload_config(), which is all the signal handler does".into()],
    }
}
