pub mod common;
pub mod c01;
pub mod c02;
pub mod c03;
pub mod c04;
pub mod c05;
pub mod c06;
pub mod c07;
pub mod c08;
pub mod c09;
pub mod c10;
pub mod c11;
pub mod c12;
pub mod c13;
pub mod c14;
pub mod c15;
pub mod c16;
pub mod c17;
pub mod c18;
pub mod c19;
pub mod c20;

use crate::explore::{Limits, Violation};
use crate::world::{Outcome, Scenario};

/// A sim-engine check: scenarios (exhaustively enumerated parameters), the
/// oracle, and the deviation bound for schedule exploration.
pub struct SimCheck {
    pub scenarios: Vec<Scenario>,
    pub oracle: Box<dyn Fn(&Scenario, &Outcome) -> Vec<Violation>>,
    pub bound: u32,
    pub limits: Limits,
    pub rule: String,
    pub assumptions: Vec<String>,
}

pub fn sim_check(id: &str, tier: &str, _seed: i64) -> Option<SimCheck> {
    match id {
        "C01" => Some(c01::build(tier)),
        "C02" => Some(c02::build(tier)),
        "C03" => Some(c03::build(tier)),
        "C04" => Some(c04::build(tier)),
        "C05" => Some(c05::build(tier)),
        "C06" => Some(c06::build(tier)),
        "C07" => Some(c07::build(tier)),
        "C08" => Some(c08::build(tier)),
        "C09" => Some(c09::build(tier)),
        "C10" => Some(c10::build(tier)),
        "C11" => Some(c11::build(tier)),
        "C12" => Some(c12::build(tier)),
        "C13" => Some(c13::build(tier)),
        "C14" => Some(c14::build(tier)),
        "C15" => Some(c15::build(tier)),
        "C16" => Some(c16::build(tier)),
        "C17" => Some(c17::build(tier)),
        "C18" => Some(c18::build(tier)),
        "C19" => Some(c19::build(tier)),
        "C20" => Some(c20::build(tier)),
        _ => None,
    }
}

/// Non-sim engine parts (enum, loom, spin) for a property.
pub fn other_parts(id: &str, tier: &str, _seed: i64) -> Vec<crate::report::Part> {
    match id {
        "C05" => vec![crate::enumc::c05::run(tier)],
        "C06" => vec![crate::enumc::c06::run(tier)],
        "C13" => vec![crate::enumc::c13::run(tier)],
        "C16" => vec![crate::loomc::run(tier)],
        "C17" if tier == "thorough" || std::env::var("VERIF_BINCONF").is_ok() => vec![crate::binconf::run(tier)],
        "C19" => vec![crate::enumc::c19::run(tier)],
        _ => vec![],
    }
}
