//! C12 — a client's session parameters follow it across server connections.

use super::common::*;
use super::SimCheck;
use crate::cfg::{Cfg, PoolCfg, Script};
use crate::explore::{Limits, Violation};
use crate::mockpg::Rec;
use crate::world::{Opts, Outcome, Scenario};
use std::collections::BTreeMap;

pub const TRACKED: &[&str] = &["application_name", "client_encoding", "DateStyle", "TimeZone", "standard_conforming_strings"];

fn lit(v: &str) -> String {
    format!("'{}'", v.replace('\'', "''"))
}

/// values per parameter: free text only where PostgreSQL accepts free text
pub fn values(p: &str, thorough: bool) -> Vec<&'static str> {
    match p {
        "application_name" => {
            if thorough {
                vec!["plain", "with space", "a'b", "a\"b", "a\\b", "é", "", "x;y", "'", "it''s"]
            } else {
                vec!["plain", "with space", "a'b", "a\\b", "é", ""]
            }
        }
        "client_encoding" => vec!["LATIN1"],
        "DateStyle" => vec!["SQL, DMY", "German"],
        "TimeZone" => vec!["America/New_York", "UTC"],
        "standard_conforming_strings" => vec!["off"],
        _ => vec!["x"],
    }
}

pub const OPS: &[&str] = &["set", "set-then-reset-all", "txn-set-rollback", "txn-set-commit", "startup", "set-untracked-too", "set-twice"];

fn client_a(op: &str, p: &str, v: &str) -> Script {
    let t = |j: usize| tag(0, j, 0);
    let probe = |j: usize| format!("SELECT 'probe' /*{}*/", t(j));
    let mut s = Script::new("a");
    let startup_key = match p {
        "DateStyle" => "datestyle",
        "TimeZone" => "timezone",
        other => other,
    };
    if op == "startup" {
        s = s.connect_params("alice", "db", Some("alicepw"), &[(startup_key, v)]);
    } else {
        s = s.connect("alice", "db", Some("alicepw"));
    }
    s = s.q(&probe(0));
    match op {
        "startup" => {
            s = s.q(&probe(1)).q(&probe(2));
        }
        "set" => {
            s = s.q(&format!("SET {} TO {}", p, lit(v))).q(&probe(1)).q(&probe(2));
        }
        "set-twice" => {
            s = s.q(&format!("SET {} TO {}", p, lit(v))).q(&probe(1)).q(&format!("SET {} TO {}", p, lit("second"))).q(&probe(2));
        }
        "set-untracked-too" => {
            s = s.q("SET work_mem TO '64MB'").q(&format!("SET {} TO {}", p, lit(v))).q(&probe(1)).q(&probe(2));
        }
        "set-then-reset-all" => {
            s = s.q(&format!("SET {} TO {}", p, lit(v))).q(&probe(1)).q("RESET ALL").q(&probe(2));
        }
        "txn-set-rollback" => {
            s = s.q("BEGIN").q(&format!("SET {} TO {}", p, lit(v))).q(&probe(1)).q("ROLLBACK").q(&probe(2));
        }
        "txn-set-commit" => {
            s = s.q("BEGIN").q(&format!("SET {} TO {}", p, lit(v))).q(&probe(1)).q("COMMIT").q(&probe(2));
        }
        _ => panic!("op"),
    }
    s.q(&probe(3)).terminate()
}

fn client_b(app: Option<&str>) -> Script {
    let t = |j: usize| tag(1, j, 0);
    let s = Script::new("b");
    let s = match app {
        Some(a) => s.connect_params("alice", "db", Some("alicepw"), &[("application_name", a)]),
        None => s.connect("alice", "db", Some("alicepw")),
    };
    s
        .q(&format!("SELECT 'probe' /*{}*/", t(0)))
        .q(&format!("SELECT 'probe' /*{}*/", t(1)))
        .q(&format!("SELECT 'probe' /*{}*/", t(2)))
        .q(&format!("SELECT 'probe' /*{}*/", t(3)))
        .terminate()
}

pub fn scenario(pool_size: u32, op: &str, p: &str, v: &str) -> Scenario {
    scenario_b(pool_size, op, p, v, None)
}

/// `b_app`: client B's own application_name at startup (None = server default)
pub fn scenario_b(pool_size: u32, op: &str, p: &str, v: &str, b_app: Option<&str>) -> Scenario {
    scenario_mode("transaction", pool_size, op, p, v, b_app)
}

/// `mode`: pool mode. In session mode a client keeps its server until it leaves; the next client gets the same
/// connection (pool_size 1) with whatever the first one left on it.
pub fn scenario_mode(mode: &str, pool_size: u32, op: &str, p: &str, v: &str, b_app: Option<&str>) -> Scenario {
    let cfg = Cfg::one(PoolCfg::simple("db", mode, pool_size, 1, 0));
    let servers = cfg.servers();
    Scenario {
        name: format!("C12 pool_size={} op={} param={} value={:?}{}{}", pool_size, op, p, v, b_app.map(|a| format!(" b_app={:?}", a)).unwrap_or_default(), if mode == "session" { " mode=session" } else { "" })
            .replace(' ', "_")
            .replace("C12_pool", "C12 pool")
            .replace("_op=", " op=")
            .replace("_param=", " param=")
            .replace("_value=", " value=")
            .replace("_b_app=", " b_app=")
            .replace("_mode=", " mode="),
        toml: cfg.toml(),
        alt_tomls: vec![],
        servers,
        actors: vec![client_a(op, p, v).actor(), client_b(b_app).actor()],
        opts: Opts::default(),
        meta: serde_json::json!({"op": op, "param": p, "value": v, "b_app": b_app}),
    }
}

/// Client A (with values of its own) is served, then a RELOAD that leaves the pool alone (an unrelated
/// general setting changes), then client B logs in with defaults: B is told the defaults and runs with them.
pub fn scenario_reload(pool_size: u32, op: &str, p: &str, v: &str) -> Scenario {
    let mut sc = scenario_b(pool_size, op, p, v, None);
    let mut cfg = Cfg::one(PoolCfg::simple("db", "transaction", pool_size, 1, 0));
    cfg.general_extra = "log_client_disconnections = true\n".into();
    sc.alt_tomls = vec![cfg.toml()];
    // B starts only after A is done and the reload has happened
    sc.actors[1].steps.insert(0, crate::world::Step::Wait(crate::world::Cond::ActorsDone(vec![0, 2])));
    sc.actors.push(crate::cfg::env(
        "reload",
        vec![crate::world::Step::Wait(crate::world::Cond::ActorsDone(vec![0])), crate::world::Step::WriteConfig(0), crate::world::Step::Admin("RELOAD".into()), crate::world::Step::Wait(crate::world::Cond::TimeMs(0))],
    ));
    sc.name = format!("{} reload-between=yes", sc.name);
    sc
}

pub fn oracle(sc: &Scenario, out: &Outcome) -> Vec<Violation> {
    let log = &out.log;
    let mut vs = Vec::new();
    let op = sc.meta["op"].as_str().unwrap();
    let p = sc.meta["param"].as_str().unwrap();
    let val = sc.meta["value"].as_str().unwrap();
    let vclass = if val.contains('\'') {
        "quote"
    } else if val.contains('\\') {
        "backslash"
    } else if val.contains(' ') {
        "space"
    } else if val.is_empty() {
        "empty"
    } else if !val.is_ascii() {
        "non-ascii"
    } else {
        "plain"
    };
    let ctx = format!("op={}:param={}:value={}", op, p, vclass);
    if out.blocked {
        vs.push(v("C12.blocked", format!("C12.blocked:{}", ctx), blocked_note(log).unwrap_or_default()));
        return vs;
    }
    // each client's view of the tracked parameters, as told by ParameterStatus
    let mut view: Vec<BTreeMap<String, String>> = vec![BTreeMap::new(), BTreeMap::new()];
    let mut established: Vec<BTreeMap<String, String>> = vec![BTreeMap::new(), BTreeMap::new()];
    if op == "startup" {
        established[0].insert(p.to_string(), val.to_string());
    }
    if let Some(b) = sc.meta["b_app"].as_str() {
        established[1].insert("application_name".to_string(), b.to_string());
    }
    let ctx = if sc.meta["b_app"].is_string() { format!("{}:b-own-value", ctx) } else { ctx };
    for e in log {
        match &e.rec {
            Rec::CRecv { c, msg } if *c < 2 && msg.code == b'S' => {
                if let Some((k, o)) = msg.cstr_at(0) {
                    if let Some((vv, _)) = msg.cstr_at(o) {
                        view[*c].insert(k, vv);
                    }
                }
            }
            Rec::BExec { conn, sql, st, .. } => {
                let t = match find_tag(sql.as_bytes()) {
                    Some(t) if t.c < 2 => t,
                    _ => continue,
                };
                for k in TRACKED {
                    let on_server = st.gucs.get(*k).cloned().unwrap_or_default();
                    let told = view[t.c].get(*k).cloned();
                    if told.as_deref() != Some(on_server.as_str()) {
                        vs.push(v(
                            "C12.mismatch",
                            format!("C12.mismatch:{}:{}:client={}", k, ctx, if t.c == 0 { "setter" } else { "other" }),
                            format!(
                                "statement {:?} of client {} ran on conn {} with {} = {:?}, but the client was told {:?}",
                                sql, t.c, conn, k, on_server, told
                            ),
                        ));
                    }
                    // client B never sets anything: whatever it did not establish at startup is the server's default
                    if t.c == 1 && *k != "application_name" && !established[1].contains_key(*k) {
                        let dflt = crate::mockpg::default_gucs().get(*k).cloned().unwrap_or_default();
                        if on_server != dflt {
                            vs.push(v(
                                "C12.foreign-value",
                                format!("C12.foreign-value:{}:{}", k, ctx),
                                format!("client 1 never touched {} (server default {:?}) but its statement {:?} ran with {:?}", k, dflt, sql, on_server),
                            ));
                        }
                    }
                    if let Some(want) = established[t.c].get(*k) {
                        if *want != on_server {
                            vs.push(v(
                                "C12.not-established",
                                format!("C12.not-established:{}:{}", k, ctx),
                                format!("client {} established {} = {:?} at startup but statement {:?} ran with {:?}", t.c, k, want, sql, on_server),
                            ));
                        }
                    }
                }
            }
            _ => {}
        }
    }
    // the setter's SET must have taken effect for its own later statements (outside rolled-back transactions)
    if matches!(op, "set" | "set-untracked-too" | "txn-set-commit") {
        let last_probe = log.iter().rev().find_map(|e| match &e.rec {
            Rec::BExec { sql, st, .. } if sql.contains(&tag(0, 2, 0)) => Some(st.gucs.get(p).cloned().unwrap_or_default()),
            _ => None,
        });
        if let Some(got) = last_probe {
            if got != val {
                vs.push(v(
                    "C12.set-lost",
                    format!("C12.set-lost:{}", ctx),
                    format!("client set {} to {:?}; a later transaction of the same client ran with {:?}", p, val, got),
                ));
            }
        }
    }
    vs
}

pub fn build(tier: &str) -> SimCheck {
    let thorough = tier == "thorough";
    let mut scenarios = Vec::new();
    for pool_size in [1u32, 2] {
        for op in OPS {
            for p in TRACKED {
                for val in values(p, thorough) {
                    if !thorough && pool_size == 2 && *p != "application_name" && *op != "txn-set-commit" {
                        continue;
                    }
                    scenarios.push(scenario(pool_size, op, p, val));
                }
            }
        }
    }
    // client B with a value of its own: unrelated, and differing from A's only in letter case
    for pool_size in [1u32, 2] {
        for op in ["startup", "set", "set-then-reset-all"] {
            for val in ["plain", "with space"] {
                let twin = val.to_uppercase();
                scenarios.push(scenario_b(pool_size, op, "application_name", val, Some("other-app")));
                scenarios.push(scenario_b(pool_size, op, "application_name", val, Some(&twin)));
            }
        }
    }
    // session mode: the sync at checkout is the only moment the client's values reach its server
    for pool_size in [1u32, 2] {
        for op in ["startup", "set", "set-then-reset-all", "txn-set-commit"] {
            for (p, val) in [("TimeZone", "America/New_York"), ("DateStyle", "SQL, DMY"), ("application_name", "a'b")] {
                scenarios.push(scenario_mode("session", pool_size, op, p, val, None));
                scenarios.push(scenario_mode("session", pool_size, op, p, val, Some("other-app")));
            }
        }
    }
    // a RELOAD of an unrelated setting between the two clients
    for pool_size in [1u32, 2] {
        for op in ["startup", "set", "txn-set-commit"] {
            for (p, val) in [("TimeZone", "America/New_York"), ("DateStyle", "SQL, DMY"), ("application_name", "a'b")] {
                scenarios.push(scenario_reload(pool_size, op, p, val));
            }
        }
    }
    SimCheck {
        scenarios,
        oracle: Box::new(oracle),
        bound: if thorough { 3 } else { 2 },
        limits: Limits { max_wall_s: if thorough { 1500.0 } else { 150.0 }, ..Default::default() },
        rule: "a RELOAD of an unrelated general setting between client A and client B (the pool is kept; B must be told, and run with, the defaults); the same in session mode; client B also with an application_name of its own (unrelated / equal to A's up to letter case); scenario = pool_size {1,2} x operation of client A (startup parameter, SET, SET twice, SET with an untracked SET, SET then RESET ALL, SET inside a rolled-back / committed transaction) x tracked parameter x value (free text incl. space, quote, backslash, non-ASCII, empty for application_name; valid alternates for the others); client B uses defaults and shares the connection(s); every schedule with <= bound deviations; at every tagged statement the backend's value of each tracked parameter must equal what that client was told by ParameterStatus and what it established".into(),
        assumptions: vec!["reference backend reports ParameterStatus like PostgreSQL 14 (before ReadyForQuery, also on RESET ALL and ROLLBACK)".into()],
    }
}
