//! Shared oracle helpers: statement tags and log views.

use crate::explore::Violation;
use crate::mockpg::{is_pooler_control, Entry, Rec, Snap};
use crate::wire::{self, Msg};

/// A client statement tag `c<i>.t<j>.s<k>` embedded in SQL text, a bind
/// parameter, a portal name or copy data.
#[derive(Clone, Copy, Debug, PartialEq, Eq, Hash, PartialOrd, Ord)]
pub struct Tag {
    pub c: usize,
    pub t: usize,
    pub s: usize,
}

pub fn tag(c: usize, t: usize, s: usize) -> String {
    format!("c{}.t{}.s{}", c, t, s)
}

pub fn find_tag(bytes: &[u8]) -> Option<Tag> {
    // scan for c<digits>.t<digits>.s<digits>
    let n = bytes.len();
    let mut i = 0;
    while i < n {
        if bytes[i] == b'c' && (i == 0 || !bytes[i - 1].is_ascii_alphanumeric()) {
            let mut j = i + 1;
            let num = |j: &mut usize| -> Option<usize> {
                let st = *j;
                while *j < n && bytes[*j].is_ascii_digit() {
                    *j += 1;
                }
                if *j == st {
                    None
                } else {
                    std::str::from_utf8(&bytes[st..*j]).ok()?.parse().ok()
                }
            };
            if let Some(c) = num(&mut j) {
                if j + 1 < n && bytes[j] == b'.' && bytes[j + 1] == b't' {
                    j += 2;
                    if let Some(t) = num(&mut j) {
                        if j + 1 < n && bytes[j] == b'.' && bytes[j + 1] == b's' {
                            j += 2;
                            if let Some(s) = num(&mut j) {
                                return Some(Tag { c, t, s });
                            }
                        }
                    }
                }
            }
        }
        i += 1;
    }
    None
}

pub fn msg_tag(m: &Msg) -> Option<Tag> {
    find_tag(&m.body)
}

/// Is this frontend message (as received by a backend) a pooler-originated control query?
pub fn is_control(m: &Msg) -> bool {
    m.code == b'Q' && is_pooler_control(&m.text())
}

pub fn v(oracle: &str, sig: String, detail: String) -> Violation {
    Violation { oracle: oracle.to_string(), sig, detail }
}

/// Backend-received messages of one connection, in order, with their seq.
pub fn brecv_of(log: &[Entry], conn: usize) -> Vec<(usize, &Msg, &Snap)> {
    log.iter()
        .filter_map(|e| match &e.rec {
            Rec::BRecv { conn: c, msg, st } if *c == conn => Some((e.seq, msg, st)),
            _ => None,
        })
        .collect()
}

pub fn conn_ids(log: &[Entry]) -> Vec<usize> {
    let mut v: Vec<usize> = log
        .iter()
        .filter_map(|e| match &e.rec {
            Rec::BAccept { conn, .. } => Some(*conn),
            _ => None,
        })
        .collect();
    v.sort();
    v.dedup();
    v
}

pub fn conn_server(log: &[Entry], conn: usize) -> String {
    for e in log {
        if let Rec::BAccept { conn: c, server } = &e.rec {
            if *c == conn {
                return server.clone();
            }
        }
    }
    String::new()
}

pub fn client_msgs(log: &[Entry], c: usize) -> Vec<(usize, &Msg)> {
    log.iter()
        .filter_map(|e| match &e.rec {
            Rec::CRecv { c: cc, msg } if *cc == c => Some((e.seq, msg)),
            _ => None,
        })
        .collect()
}

pub fn has_panic(log: &[Entry]) -> Vec<String> {
    log.iter()
        .filter_map(|e| match &e.rec {
            Rec::Panic { msg } => Some(msg.clone()),
            _ => None,
        })
        .collect()
}

pub fn notes(log: &[Entry]) -> Vec<&str> {
    log.iter()
        .filter_map(|e| match &e.rec {
            Rec::Note { msg } => Some(msg.as_str()),
            _ => None,
        })
        .collect()
}

pub fn blocked_note(log: &[Entry]) -> Option<String> {
    notes(log).into_iter().find(|n| n.starts_with("BLOCKED-FOREVER")).map(|s| s.to_string())
}

/// seq at which client actor `c` closed its socket (CClosed) or saw EOF.
pub fn client_gone_seq(log: &[Entry], c: usize) -> Option<usize> {
    log.iter().find_map(|e| match &e.rec {
        Rec::CClosed { c: cc, .. } | Rec::CEof { c: cc } if *cc == c => Some(e.seq),
        _ => None,
    })
}

pub fn describe(m: &Msg) -> String {
    wire::describe_msg(m)
}

/// Generic signature scrubber: digits -> '#'.
pub fn scrub(s: &str) -> String {
    let mut out = String::new();
    let mut last_hash = false;
    for ch in s.chars() {
        if ch.is_ascii_digit() {
            if !last_hash {
                out.push('#');
            }
            last_hash = true;
        } else {
            out.push(ch);
            last_hash = false;
        }
    }
    out
}
