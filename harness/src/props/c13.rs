//! C13 (sim part): handled commands are answered by the pooler with a
//! well-formed reply ending in ReadyForQuery and never forwarded; everything
//! else reaches the backend byte-identical.

use super::common::*;
use super::SimCheck;
use crate::cfg::{Cfg, PoolCfg, Script};
use crate::enumc::c13::{apply, canonical_spellings, classify, default_role_name, Class, Cmd, Model, VOCAB};
use crate::explore::{Limits, Violation};
use crate::mockpg::Rec;
use crate::wire::Msg;
use crate::world::{Opts, Outcome, Scenario};
use std::collections::BTreeSet;

pub fn scenario(name: &str, strings: &[String]) -> Scenario {
    scenario_role(name, strings, None)
}

/// `default_role`: the pool's configured default role; a fresh session starts from it, and
/// `SET SERVER ROLE TO 'default'` returns to it.
pub fn scenario_role(name: &str, strings: &[String], default_role: Option<&str>) -> Scenario {
    let mut pool = PoolCfg::sharded("db", "transaction", 1, 3, 1, 1);
    if let Some(r) = default_role {
        pool.extra = format!("{}default_role = \"{}\"\n", pool.extra, r);
    }
    let cfg = Cfg::one(pool);
    let servers = cfg.servers();
    let mut s = Script::new("c0").connect("alice", "db", Some("alicepw"));
    for st in strings {
        s = s.q(st);
    }
    s = s.terminate();
    Scenario {
        name: format!("C13 {}", name),
        toml: cfg.toml(),
        alt_tomls: vec![],
        servers,
        actors: vec![s.actor()],
        opts: Opts { max_events: 2000, ..Opts::default() },
        meta: serde_json::json!({ "strings": strings, "default_role": default_role }),
    }
}

/// The routing commands need no server: they are answered also while the pool is paused (nobody resumes).
pub fn scenario_paused(name: &str, strings: &[String]) -> Scenario {
    let mut sc = scenario_role(name, strings, None);
    // the admin pauses before the client sends anything
    sc.actors[0].steps.insert(1, crate::world::Step::Wait(crate::world::Cond::ActorsDone(vec![1])));
    sc.actors.push(crate::cfg::env("admin", vec![crate::world::Step::Wait(crate::world::Cond::ActorAt(0, 1)), crate::world::Step::Admin("PAUSE".into())]));
    sc
}

pub fn oracle(sc: &Scenario, out: &Outcome) -> Vec<Violation> {
    let log = &out.log;
    let mut vs = Vec::new();
    let strings: Vec<String> = sc.meta["strings"].as_array().unwrap().iter().map(|x| x.as_str().unwrap().to_string()).collect();
    // replies per query: segments of client messages after login split at Z
    let mut segs: Vec<Vec<Msg>> = vec![vec![]];
    let mut seen_login = false;
    for (_, m) in client_msgs(log, 0) {
        if !seen_login {
            if m.code == b'Z' {
                seen_login = true;
            }
            continue;
        }
        segs.last_mut().unwrap().push(m.clone());
        if m.code == b'Z' {
            segs.push(vec![]);
        }
    }
    let forwarded: Vec<String> = log
        .iter()
        .filter_map(|e| match &e.rec {
            Rec::BRecv { msg, .. } if msg.code == b'Q' && !is_control(msg) => Some(msg.text()),
            _ => None,
        })
        .collect();
    let mut fwd_iter = 0usize;
    let dr = match sc.meta["default_role"].as_str() {
        Some("primary") => Some(pgcat::config::Role::Primary),
        Some("replica") => Some(pgcat::config::Role::Replica),
        _ => None,
    };
    let mut model = Model { shard: None, shard_known: true, role: default_role_name(dr, false), primary_reads: false };
    for (i, st) in strings.iter().enumerate() {
        let seg = match segs.get(i) {
            Some(s) if s.last().map(|m| m.code) == Some(b'Z') => s.clone(),
            _ => {
                vs.push(v(
                    "C13.no-reply",
                    format!("C13.no-reply:{}", scrub(&format!("{:?}", classify(st)))),
                    format!("query #{} {:?} got no ReadyForQuery-terminated reply (connection closed or hung)", i, st),
                ));
                break;
            }
        };
        let was_forwarded = forwarded.get(fwd_iter).map(|f| f == st).unwrap_or(false);
        if was_forwarded {
            fwd_iter += 1;
        }
        let class = classify(st);
        match (&class, was_forwarded) {
            (Class::MustHandle(_), true) => vs.push(v("C13.forwarded-command", "C13.forwarded-command".into(), format!("documented command {:?} was forwarded to a server", st))),
            (Class::MustForward, false) => vs.push(v(
                "C13.not-forwarded",
                "C13.not-forwarded".into(),
                format!("query {:?} is not a documented command but did not reach a server untouched (reply: {})", st, seg.iter().map(describe).collect::<Vec<_>>().join(" ")),
            )),
            _ => {}
        }
        if !was_forwarded {
            // pooler-made reply must be one of the three well-formed shapes
            let codes: Vec<u8> = seg.iter().map(|m| m.code).collect();
            let ok = codes == vec![b'C', b'Z'] || codes == vec![b'T', b'D', b'C', b'Z'] || codes == vec![b'E', b'Z'];
            if !ok {
                vs.push(v("C13.malformed-reply", "C13.malformed-reply".into(), format!("pooler's reply to {:?} is not well-formed: {:?}", st, codes.iter().map(|c| *c as char).collect::<String>())));
            }
            // state / SHOW values follow the reference state machine
            if let Class::MustHandle(cmd) = &class {
                let refused = codes == vec![b'E', b'Z'];
                let mut m2 = model.clone();
                let want = apply(&mut m2, cmd, 3, dr, false, false);
                if refused {
                    // only an out-of-range SET SHARD may be refused
                    let legit = matches!(cmd, Cmd::SetShard(val) if val.parse::<usize>().map(|n| n >= 3).unwrap_or(false));
                    if !legit {
                        vs.push(v("C13.refused", "C13.refused".into(), format!("documented command {:?} was answered with an error: {}", st, describe(&seg[0]))));
                    }
                } else {
                    if let Cmd::SetShard(val) = cmd {
                        if val.parse::<usize>().map(|n| n >= 3).unwrap_or(false) {
                            vs.push(v("C13.range-accepted", "C13.range-accepted".into(), format!("{:?} names a shard that is not configured (3 shards) but was accepted", st)));
                        }
                    }
                    model = m2;
                    if let Some(w) = want {
                        let got = seg.iter().find(|m| m.code == b'D').and_then(|m| m.row_cols().first().cloned().flatten()).map(|b| String::from_utf8_lossy(&b).to_string());
                        if w != "?" && got.as_deref() != Some(w.as_str()) {
                            vs.push(v(
                                "C13.show-value",
                                format!("C13.show-value:{}", scrub(&format!("{:?}", cmd))),
                                format!("{:?} reported {:?}; the preceding commands established {:?}", st, got, w),
                            ));
                        }
                    }
                }
            }
        } else if seg.iter().any(|m| m.code == b'E' && m.err_field(b'C').as_deref() == Some("58000")) {
            // forwarded but failed inside the pooler
            vs.push(v("C13.pooler-error", "C13.pooler-error".into(), format!("forwarded query {:?} failed in the pooler: {}", st, describe(&seg[0]))));
        }
    }
    if fwd_iter != forwarded.len() {
        vs.push(v("C13.extra-forward", "C13.extra-forward".into(), format!("backend received {} queries, {} accounted for", forwarded.len(), fwd_iter)));
    }
    vs
}

pub fn build(tier: &str) -> SimCheck {
    let thorough = tier == "thorough";
    let mut scenarios = Vec::new();
    let canon: Vec<String> = canonical_spellings().iter().map(|v| v.concat()).collect();
    // (1) every canonical spelling, in order (state carries over: SHOWs check the SETs)
    scenarios.push(scenario("canonical", &canon));
    let mut rev = canon.clone();
    rev.reverse();
    scenarios.push(scenario("canonical-reversed", &rev));
    // (1b) pools with a default role of their own: a fresh session reports it before anything else
    for r in ["primary", "replica"] {
        let strings: Vec<String> = ["SHOW SERVER ROLE", "SELECT 1 /*c0.t0.s0*/", "SHOW SERVER ROLE", "SET SERVER ROLE TO 'any'", "SHOW SERVER ROLE", "SET SERVER ROLE TO 'default'", "SHOW SERVER ROLE"]
            .iter()
            .map(|s| s.to_string())
            .collect();
        scenarios.push(scenario_role(&format!("default-role-{}", r), &strings, Some(r)));
        scenarios.push(scenario_role(&format!("canonical default_role={}", r), &canon, Some(r)));
    }
    // (1c) while the pool is paused: only commands (a forwarded statement would rightly wait for RESUME)
    {
        let cmds: Vec<String> = canon.iter().filter(|c| matches!(classify(c), Class::MustHandle(_))).cloned().collect();
        scenarios.push(scenario_paused("canonical-commands-while-paused", &cmds));
    }
    // (2) refusal keeps the old selection
    scenarios.push(scenario(
        "refusal",
        &["SET SHARD TO '1'", "SHOW SHARD", "SET SHARD TO 3", "SHOW SHARD", "SET SHARD TO '99'", "SHOW SHARD", "SELECT 1 /*c0.t0.s0*/", "SET SHARD TO 2", "SHOW SHARD"]
            .iter()
            .map(|s| s.to_string())
            .collect::<Vec<_>>(),
    ));
    // (3) near misses: every single-token deletion / replacement / insertion of the canonical spellings
    let mut near: BTreeSet<String> = BTreeSet::new();
    let step = if thorough { 1 } else { 5 };
    let mut n = 0usize;
    for sp in canonical_spellings() {
        for i in 0..sp.len() {
            let mut d = sp.clone();
            d.remove(i);
            near.insert(d.concat());
            for t in VOCAB {
                n += 1;
                if n % step != 0 {
                    continue;
                }
                let mut r = sp.clone();
                r[i] = t;
                near.insert(r.concat());
                let mut ins = sp.clone();
                ins.insert(i, t);
                near.insert(ins.concat());
            }
        }
        let c = sp.concat();
        near.insert(format!("SELECT '{}'", c.replace('\'', "''")));
        near.insert(format!("SELECT 1; {}", c));
        near.insert(format!("/* {} */ SELECT 1", c));
        near.insert(format!("{} x", c));
    }
    let near: Vec<String> = near.into_iter().filter(|s| !s.trim().is_empty() && !s.contains('\0')).collect();
    for (i, chunk) in near.chunks(120).enumerate() {
        scenarios.push(scenario(&format!("near-miss-{}", i), &chunk.to_vec()));
    }
    SimCheck {
        scenarios,
        oracle: Box::new(oracle),
        bound: 0,
        limits: Limits::default(),
        rule: "sim: every canonical spelling (forward and reverse order, SHOW after SETs; also on pools whose default_role is primary / replica, where a fresh session must report that role; the commands also while the pool is paused), refusal sequences, and single-token perturbations of every canonical spelling sent as simple queries to the real pooler (3 shards); handled => pooler reply of shape C Z | T D C Z | E Z and nothing forwarded; otherwise the backend receives the identical text".into(),
        assumptions: vec!["classification by the same hand-written reference recogniser as the enum part".into()],
    }
}
