//! C19 (sim part): a denied statement's text never reaches a server, over both
//! protocols, wherever it sits in a batch or transaction; intercepted queries
//! are answered by the pooler; with plugins disabled nothing is blocked.

use super::common::*;
use super::SimCheck;
use crate::cfg::{env, Cfg, PoolCfg, Script};
use crate::explore::{Limits, Violation};
use crate::mockpg::Rec;
use crate::wire;
use crate::world::{Cond, Opts, Outcome, Scenario, Step};
use std::collections::BTreeMap;

const DENIED: &str = "SELECT * FROM secret WHERE id = 1";
const DENIED2: &str = "SELECT * FROM other o JOIN PG_CATALOG.\"pg_user\" u ON o.id = u.usesysid";
const INTERCEPT_QUERY: &str = "select current_database() as a, current_schemas(false) as b";

fn pbe(name: &str, sql: &str) -> Vec<u8> {
    let mut b = wire::parse(name, sql, &[]);
    b.extend(wire::bind("", name, &[], &[], &[]));
    b.extend(wire::execute("", 0));
    b
}

fn ok(tg: &str) -> String {
    format!("SELECT 1 /*{} allowed*/", tg)
}

pub const PROGRAMS: &[&str] = &[
    "q-denied", "q-multi-first", "q-multi-last", "ext-denied", "ext-denied-then-allowed-in-batch", "ext-allowed-then-denied-in-batch", "txn-q-denied",
    "txn-ext-denied-then-batch", "named-denied-then-bind", "intercept", "denied-parse-only", "ext-intercept", "txn-ext-intercept", "ext-allowed-then-intercept", "reload-then-q-denied", "reload-then-ext-denied", "pause-reload-then-q-denied", "two-named-denied-then-bind", "ext-intercept-then-idle",
];

pub fn scenario(prog: &str, enabled: bool, cache: usize) -> Scenario {
    let mut pool = PoolCfg::simple("db", "transaction", 1, 1, 0);
    pool.extra = format!("query_parser_enabled = true\nprepared_statements_cache_size = {}\n", cache);
    let mut cfg = Cfg::one(pool);
    let plugins = |tables: &str| {
        format!(
            "\n[plugins.table_access]\nenabled = {e}\ntables = [{t}]\n\n[plugins.intercept]\nenabled = {e}\n\n[plugins.intercept.queries.0]\nquery = \"{q}\"\nschema = [[\"a\", \"text\"], [\"b\", \"text\"]]\nresult = [[\"${{DATABASE}}\", \"{{public}}\"]]\n",
            e = enabled,
            t = tables,
            q = INTERCEPT_QUERY
        )
    };
    // the listed tables arrive with a RELOAD while the client is connected and idle
    let reloading = prog.starts_with("reload-") || prog.starts_with("pause-reload-");
    let mut alt_tomls = Vec::new();
    if reloading {
        cfg.general_extra = plugins("\"secret\", \"pg_user\"");
        alt_tomls.push(cfg.toml());
        cfg.general_extra = plugins("\"audit_log\"");
    } else {
        cfg.general_extra = plugins("\"secret\", \"pg_user\"");
    }
    let servers = cfg.servers();
    let mut s = Script::new("c0").connect("alice", "db", Some("alicepw"));
    let mut t = 0usize;
    let mut tg = || {
        t += 1;
        tag(0, t, 0)
    };
    let sync = wire::sync();
    match prog {
        "q-denied" => {
            s = s.q(DENIED).q(&ok(&tg())).q(DENIED2).q(&ok(&tg()));
        }
        "q-multi-first" => {
            s = s.q(&format!("{}; {}", DENIED, ok(&tg()))).q(&ok(&tg()));
        }
        "q-multi-last" => {
            s = s.q(&format!("SELECT 2; {}", DENIED)).q(&ok(&tg()));
        }
        "ext-denied" => {
            let mut b = pbe("", DENIED);
            b.extend(sync.clone());
            let mut b2 = pbe("", &ok(&tg()));
            b2.extend(sync.clone());
            s = s.send_z(b, "P(denied) B E S").send_z(b2, "P B E S");
        }
        "ext-denied-then-allowed-in-batch" => {
            let mut b = pbe("", DENIED);
            b.extend(pbe("", "SELECT 2"));
            b.extend(sync.clone());
            let mut b2 = pbe("", &ok(&tg()));
            b2.extend(sync.clone());
            s = s.send_z(b, "P(denied) B E P B E S").send_z(b2, "P B E S");
        }
        "ext-allowed-then-denied-in-batch" => {
            let mut b = pbe("", "SELECT 2");
            b.extend(pbe("", DENIED2));
            b.extend(sync.clone());
            let mut b2 = pbe("", &ok(&tg()));
            b2.extend(sync.clone());
            s = s.send_z(b, "P B E P(denied) B E S").send_z(b2, "P B E S");
        }
        "txn-q-denied" => {
            s = s.q("BEGIN").q(DENIED).q(&ok(&tg())).q("COMMIT").q(&ok(&tg()));
        }
        "txn-ext-denied-then-batch" => {
            let mut b = pbe("", DENIED);
            b.extend(sync.clone());
            let mut b2 = pbe("", &ok(&tg()));
            b2.extend(sync.clone());
            let mut b3 = pbe("", &ok(&tg()));
            b3.extend(sync.clone());
            s = s.q("BEGIN").send_z(b, "P(denied) B E S").send_z(b2, "P B E S").q("COMMIT").send_z(b3, "P B E S");
        }
        "named-denied-then-bind" => {
            let mut b = wire::parse("sx", DENIED, &[]);
            b.extend(sync.clone());
            let mut b2 = wire::bind("", "sx", &[], &[], &[]);
            b2.extend(wire::execute("", 0));
            b2.extend(sync.clone());
            s = s.send_z(b, "P(sx, denied) S").send_z(b2, "B(sx) E S");
            // the connection may have been closed by the pooler for the unknown statement: reconnect
            s = s.step(Step::Wait(Cond::TimeMs(0)));
        }
        "two-named-denied-then-bind" => {
            // two refused statements in one batch, each under a name: neither may be usable afterwards
            let mut b = wire::parse("sx", DENIED, &[]);
            b.extend(wire::parse("sy", DENIED2, &[]));
            b.extend(sync.clone());
            let mut b2 = wire::bind("", "sy", &[], &[], &[]);
            b2.extend(wire::execute("", 0));
            b2.extend(sync.clone());
            s = s.send_z(b, "P(sx, denied) P(sy, denied) S").send_z(b2, "B(sy) E S");
            s = s.step(Step::Wait(Cond::TimeMs(0)));
        }
        "intercept" => {
            s = s.q(INTERCEPT_QUERY).q(&INTERCEPT_QUERY.to_uppercase()).q(&ok(&tg()));
        }
        "ext-intercept-then-idle" => {
            // after a batch the pooler answered itself the client is idle: it holds nothing, the second client
            // (pool_size 1) is served while this one is still connected
            let mut b = pbe("", INTERCEPT_QUERY);
            b.extend(sync.clone());
            s = s.send_z(b, "P(intercepted) B E S").wait(Cond::ActorsDone(vec![1])).q(&ok(&tg()));
        }
        "ext-intercept" => {
            // the verdict is found at Parse, acted on at Sync: no server is held in between
            let mut b = pbe("", INTERCEPT_QUERY);
            b.extend(sync.clone());
            s = s.send_z(b, "P(intercepted) B E S").q(&ok(&tg()));
        }
        "txn-ext-intercept" => {
            let mut b = pbe("", INTERCEPT_QUERY);
            b.extend(sync.clone());
            s = s.q("BEGIN").q(&ok(&tg())).send_z(b, "P(intercepted) B E S").q("COMMIT").q(&ok(&tg()));
        }
        "ext-allowed-then-intercept" => {
            let mut b0 = pbe("", &ok(&tg()));
            b0.extend(sync.clone());
            let mut b = pbe("", INTERCEPT_QUERY);
            b.extend(sync.clone());
            s = s.send_z(b0, "P B E S").send_z(b, "P(intercepted) B E S").q(&ok(&tg()));
        }
        "reload-then-q-denied" | "reload-then-ext-denied" => {
            // before the reload the table is not listed: the statement is forwarded (not judged);
            // after it, the same connected client must be refused
            s = s.q(&ok(&tg())).wait(Cond::ActorsDone(vec![2]));
            if prog == "reload-then-q-denied" {
                s = s.q(DENIED).q(&ok(&tg()));
            } else {
                let mut b = pbe("", DENIED);
                b.extend(sync.clone());
                s = s.send_z(b, "P(denied) B E S").q(&ok(&tg()));
            }
        }
        "pause-reload-then-q-denied" => {
            // the statement arrives while the pool is paused, the table is listed by a RELOAD during the
            // pause: by the time the statement may run it is a denied one
            s = s.q(&ok(&tg())).wait(Cond::ActorAt(2, 2)).send(wire::query(DENIED), "Q denied (while paused)");
            s.z += 1;
            s = s.wait_z().q(&ok(&tg()));
        }
        "denied-parse-only" => {
            // Parse of a denied statement, then the client changes its mind: Sync, then an allowed simple query
            let mut b = wire::parse("", DENIED, &[]);
            b.extend(sync.clone());
            s = s.send_z(b, "P(denied) S").q(&ok(&tg()));
        }
        _ => panic!("unknown program"),
    }
    s = s.terminate();
    let idle_at = s.steps.iter().position(|x| matches!(x, Step::Wait(Cond::ActorsDone(v)) if v == &vec![1usize]));
    let probe = Script::new("probe")
        .wait(match idle_at {
            Some(at) => Cond::ActorAt(0, at),
            None => Cond::ActorsDone(vec![0]),
        })
        .connect("alice", "db", Some("alicepw"))
        .q(&format!("SELECT 'probe' /*{} allowed*/", tag(1, 0, 0)))
        .terminate();
    Scenario {
        name: format!("C19 prog={} plugins={} cache={}", prog, if enabled { "on" } else { "off" }, cache),
        toml: cfg.toml(),
        alt_tomls,
        servers,
        actors: if reloading {
            // actor 2: the reload, once the client has run its first statement
            let at = s.steps.iter().position(|x| matches!(x, Step::Wait(Cond::ActorsDone(_)) | Step::Wait(Cond::ActorAt(2, _)))).unwrap();
            let reload_steps = if prog.starts_with("pause-") {
                vec![
                    Step::Wait(Cond::ActorAt(0, at)),
                    Step::Admin("PAUSE".into()),
                    // (the client's statement is sent now and waits)
                    Step::Wait(Cond::ActorAt(0, at + 2)),
                    Step::WriteConfig(0),
                    Step::Admin("RELOAD".into()),
                    Step::Admin("RESUME".into()),
                ]
            } else {
                vec![Step::Wait(Cond::ActorAt(0, at)), Step::WriteConfig(0), Step::Admin("RELOAD".into())]
            };
            vec![
                s.actor(),
                probe.actor(),
                env("reload", reload_steps),
                env("final", vec![Step::Wait(Cond::ActorsDone(vec![0, 1])), Step::Probe]),
            ]
        } else {
            vec![s.actor(), probe.actor(), env("final", vec![Step::Wait(Cond::ActorsDone(vec![0, 1])), Step::Probe])]
        },
        opts: Opts::default(),
        meta: serde_json::Value::Null,
    }
}

/// Plugins configured at both levels: the pool's own section (the usual tables and intercept rule) replaces the
/// general one (which lists another table and has no intercept rule).
pub fn scenario_both_levels(prog: &str, cache: usize) -> Scenario {
    let mut sc = scenario(prog, true, cache);
    sc.toml = sc.toml.replace("[plugins.", "[pools.db.plugins.");
    sc.toml.push_str("\n[plugins.table_access]\nenabled = true\ntables = [\"audit_log\"]\n\n[plugins.intercept]\nenabled = true\n\n[plugins.intercept.queries.0]\nquery = \"select 42\"\nschema = [[\"x\", \"text\"]]\nresult = [[\"general\"]]\n");
    sc.name = format!("{} levels=general+pool", sc.name);
    sc
}

pub fn oracle(sc: &Scenario, out: &Outcome) -> Vec<Violation> {
    let log = &out.log;
    let mut vs = Vec::new();
    let prog = sc.name.split_whitespace().find_map(|w| w.strip_prefix("prog=")).unwrap_or("").to_string();
    let enabled = sc.name.contains("plugins=on");
    let cache = sc.name.split_whitespace().find_map(|w| w.strip_prefix("cache=")).unwrap_or("0").to_string();
    let ctx = format!("prog={}:cache={}", prog, cache);
    if out.blocked {
        vs.push(v("C19.blocked", format!("C19.blocked:{}", ctx), blocked_note(log).unwrap_or_default()));
    }
    if let Some(e) = &out.init_error {
        vs.push(v("C19.scenario-did-not-start", format!("C19.scenario-did-not-start:{}", ctx), format!("the pooler refused the scenario's configuration: {}", e)));
        return vs;
    }
    let mentions_listed = |t: &str| t.contains("FROM secret") || t.contains("\"pg_user\"");
    let mut got_denied_text = 0;
    let mut intercept_forwarded = 0;
    let mut exec_count: BTreeMap<String, usize> = BTreeMap::new();
    for e in log {
        match &e.rec {
            Rec::BRecv { msg, .. } if msg.code == b'Q' || msg.code == b'P' => {
                let text = String::from_utf8_lossy(&msg.body).to_string();
                if mentions_listed(&text) {
                    got_denied_text += 1;
                    if enabled {
                        vs.push(v(
                            "C19.denied-text-reached-server",
                            format!("C19.denied-text-reached-server:{}:{}", ctx, msg.code as char),
                            format!("a statement referring to a listed table reached a server: {}", describe(msg)),
                        ));
                    }
                }
                if text.to_lowercase().contains("current_schemas(false)") {
                    intercept_forwarded += 1;
                    if enabled {
                        vs.push(v("C19.intercept-forwarded", format!("C19.intercept-forwarded:{}", ctx), format!("an intercepted query was forwarded: {}", describe(msg))));
                    }
                }
            }
            Rec::BExec { sql, .. } if sql.contains("allowed") => {
                *exec_count.entry(sql.clone()).or_insert(0) += 1;
            }
            _ => {}
        }
    }
    // every allowed tagged statement the client sent ran exactly once and its result came back
    let mut sent_allowed: Vec<String> = Vec::new();
    for e in log {
        if let Rec::CSend { bytes, .. } = &e.rec {
            let t = String::from_utf8_lossy(bytes).to_string();
            let mut rest = t.as_str();
            while let Some(p) = rest.find("SELECT") {
                let seg = &rest[p..];
                if let Some(end) = seg.find("allowed*/") {
                    let stmt = &seg[..end + 9];
                    if !stmt[6..].contains("SELECT") {
                        sent_allowed.push(stmt.to_string());
                    }
                    rest = &seg[end + 9..];
                } else {
                    break;
                }
            }
        }
    }
    let closed_by_pooler = log.iter().any(|e| matches!(&e.rec, Rec::CEof { c } if *c == 0)) && (prog == "named-denied-then-bind" || prog == "two-named-denied-then-bind");
    for st in &sent_allowed {
        // multi-statement message with a denied part: the whole message is refused
        if prog == "q-multi-first" && enabled && st.contains("c0.t1.") {
            continue;
        }
        let n = exec_count.get(st).copied().unwrap_or(0);
        if n != 1 && !closed_by_pooler {
            vs.push(v(
                "C19.allowed-not-once",
                format!("C19.allowed-not-once:{}:{}", ctx, if n == 0 { "never" } else { "repeated" }),
                format!("allowed statement {:?} was executed {} times", st, n),
            ));
        }
    }
    // the client is told: one ErrorResponse per denied request when plugins are on
    let errs = client_msgs(log, 0).iter().filter(|(_, m)| m.code == b'E').count();
    let expected_errs = match (enabled, prog.as_str()) {
        (false, _) => 0,
        (true, "q-denied") => 2,
        (true, p) if p.contains("intercept") => 0,
        (true, _) => 1,
    };
    if enabled && errs < expected_errs {
        vs.push(v("C19.no-error", format!("C19.no-error:{}", ctx), format!("expected at least {} permission errors, client saw {}", expected_errs, errs)));
    }
    if !enabled && got_denied_text == 0 && !prog.contains("intercept") {
        vs.push(v("C19.blocked-when-disabled", format!("C19.blocked-when-disabled:{}", ctx), "plugins are disabled but the statement did not reach the server".into()));
    }
    if !enabled && prog.contains("intercept") && intercept_forwarded == 0 {
        vs.push(v("C19.intercepted-when-disabled", format!("C19.intercepted-when-disabled:{}", ctx), "plugins are disabled but the query was not forwarded".into()));
    }
    if enabled && prog.contains("intercept") {
        let rows: Vec<String> = client_msgs(log, 0)
            .iter()
            .filter(|(_, m)| m.code == b'D' && m.row_cols().len() == 2)
            .map(|(_, m)| m.row_cols().iter().map(|c| String::from_utf8_lossy(c.as_deref().unwrap_or(b"NULL")).to_string()).collect::<Vec<_>>().join("|"))
            .collect();
        let want = if prog == "intercept" { 2 } else { 1 };
        if rows != vec!["db|{public}".to_string(); want] {
            vs.push(v("C19.intercept-rows", format!("C19.intercept-rows:{}", ctx), format!("intercepted rows {:?}, configured [db|{{public}}] {} time(s)", rows, want)));
        }
    }
    // no server stays pinned: the probe client (pool_size 1) is served and nothing is checked out at the end
    let probe_rows = client_msgs(log, 1).iter().filter(|(_, m)| m.code == b'D').count();
    if probe_rows != 1 && !out.blocked {
        vs.push(v("C19.pinned", format!("C19.pinned:{}", ctx), "after the session, a second client could not be served with pool_size 1".into()));
    }
    if let Some(data) = log.iter().rev().find_map(|e| if let Rec::Probe { data } = &e.rec { Some(data.clone()) } else { None }) {
        let j: serde_json::Value = serde_json::from_str(&data).unwrap();
        for p in j["pools"].as_array().unwrap() {
            if p["connections"] != p["idle"] {
                vs.push(v("C19.leak", format!("C19.leak:{}", ctx), format!("a server connection is still checked out at the end: {}", p)));
            }
        }
    }
    vs
}

pub fn build(tier: &str) -> SimCheck {
    let thorough = tier == "thorough";
    let mut scenarios = Vec::new();
    for prog in PROGRAMS {
        for enabled in [true, false] {
            for cache in [0usize, 8] {
                if !thorough && !enabled && cache == 8 {
                    continue;
                }
                scenarios.push(scenario(prog, enabled, cache));
            }
        }
    }
    for prog in ["q-denied", "ext-denied", "intercept", "ext-intercept", "named-denied-then-bind"] {
        for cache in [0usize, 8] {
            scenarios.push(scenario_both_levels(prog, cache));
        }
    }
    SimCheck {
        scenarios,
        oracle: Box::new(oracle),
        bound: 0,
        limits: Limits::default(),
        rule: "sim: 19 programs (denied simple query, denied part first/last of a multi-statement query, denied extended batch, denied + allowed statements in one batch in both orders, inside a transaction over both protocols, denied named statement bound later, two denied named statements in one batch with the second bound later, intercept over the simple protocol, over the extended protocol outside / inside a transaction / after an allowed batch, denied Parse abandoned, a table listed by a RELOAD while the client is connected and idle then named over the simple / extended protocol, or named while the pool is paused and listed by a RELOAD during the pause) x plugins on/off x statement caching off/on; also with plugins configured at both levels (the pool's own section replaces the general one); then a second client and a pooler-state probe".into(),
        assumptions: vec!["denied text recognised on the backend by the listed table reference it contains".into()],
    }
}
