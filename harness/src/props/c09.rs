//! C09 — no access without valid credentials.

use super::common::*;
use super::SimCheck;
use crate::cfg::{env, Cfg, PoolCfg, Script, UserCfg};
use crate::explore::{Limits, Violation};
use crate::mockpg::{Accept, Rec};
use crate::wire;
use crate::world::{CloseKind, Cond, DynFn, Opts, Outcome, Scenario, Step};
use std::sync::Arc;

pub const CONFIGS: &[&str] = &["cleartext", "trust", "authquery", "authquery-absent", "authquery-late", "authquery-changed", "authquery-two", "bob-removed", "pool-removed", "authquery-moved"];
pub const STARTUPS: &[(&str, &str, &str)] = &[
    ("alice@db", "alice", "db"),
    ("bob@db", "bob", "db"),
    ("mallory@db", "mallory", "db"),
    ("alice@nodb", "alice", "nodb"),
    ("admin@pgcat", "admin_user", "pgcat"),
    ("admin@pgbouncer", "admin_user", "pgbouncer"),
    ("alice@pgcat", "alice", "pgcat"),
    ("alice-only", "alice", ""),
    ("alice@db2", "alice", "db2"),
];
pub const VARIANTS: &[&str] = &[
    "correct", "wrong", "other-user", "replayed-salt", "minus-nul", "plus-byte", "empty", "len-minus1", "len0", "len3", "len4", "len-huge", "query-instead", "terminate-instead", "parse-instead",
    "startup-again", "garbage", "nothing", "old-password",
];

fn real_password(cfgname: &str, user: &str) -> Option<&'static str> {
    match (cfgname, user) {
        (_, "admin_user") => Some("admin_pass"),
        ("cleartext", "alice") => Some("alicepw"),
        ("cleartext", "bob") | ("bob-removed", "bob") | ("pool-removed", "bob") => Some("bobpw"),
        ("bob-removed", "alice") | ("pool-removed", "alice") => Some("alicepw"),
        ("trust", "alice") => Some("alicepw"),
        ("authquery", "alice") | ("authquery-late", "alice") => Some("alicepw"),
        ("authquery-changed", "alice") | ("authquery-moved", "alice") => Some("newpw"),
        ("authquery-two", "alice") => Some("alicepw"),
        ("authquery-two", "bob") => Some("bobpw"),
        _ => None,
    }
}

fn variant_bytes(variant: &str, user: &str, pw: &str) -> DynFn {
    let variant = variant.to_string();
    let user = user.to_string();
    let pw = pw.to_string();
    Arc::new(move |salt: Option<[u8; 4]>, stale: Option<[u8; 4]>| {
        let salt = salt.unwrap_or([1, 2, 3, 4]);
        let good = wire::md5_password_body(&user, &pw, &salt);
        match variant.as_str() {
            "correct" => wire::password_message(&good),
            "wrong" => wire::password_message(&wire::md5_password_body(&user, "not-the-password", &salt)),
            // the password that was right before the server-side change / the move to another server
            "old-password" => wire::password_message(&wire::md5_password_body(&user, "alicepw", &salt)),
            "other-user" => {
                // the valid answer of a *different* configured user
                if user == "bob" {
                    wire::password_message(&wire::md5_password_body("alice", "alicepw", &salt))
                } else {
                    wire::password_message(&wire::md5_password_body("bob", "bobpw", &salt))
                }
            }
            "replayed-salt" => wire::password_message(&wire::md5_password_body(&user, &pw, &stale.unwrap_or([9, 9, 9, 9]))),
            "minus-nul" => wire::password_message(&good[..good.len() - 1]),
            "plus-byte" => {
                let mut g = good.clone();
                g.push(b'x');
                wire::password_message(&g)
            }
            "empty" => wire::password_message(&[]),
            "len-minus1" => {
                let mut m = vec![b'p'];
                m.extend_from_slice(&(-1i32).to_be_bytes());
                m.extend_from_slice(&good);
                m
            }
            "len0" => {
                let mut m = vec![b'p'];
                m.extend_from_slice(&0i32.to_be_bytes());
                m.extend_from_slice(&good);
                m
            }
            "len3" => {
                let mut m = vec![b'p'];
                m.extend_from_slice(&3i32.to_be_bytes());
                m.extend_from_slice(&good);
                m
            }
            "len4" => {
                let mut m = vec![b'p'];
                m.extend_from_slice(&4i32.to_be_bytes());
                m.extend_from_slice(&good);
                m
            }
            "len-huge" => {
                let mut m = vec![b'p'];
                m.extend_from_slice(&(1i32 << 20).to_be_bytes());
                m.extend_from_slice(&good);
                m
            }
            "query-instead" => wire::query("SELECT 'instead of password' /*c0.t9.s9*/"),
            "terminate-instead" => wire::terminate(),
            "parse-instead" => wire::parse("", "SELECT 1 /*c0.t9.s8*/", &[]),
            "startup-again" => wire::startup(&[("user", &user), ("database", "db")]),
            "garbage" => vec![0xff, 0x00, 0x00, 0x01, 0x00, 0x41, 0x42],
            "nothing" => vec![],
            _ => unreachable!(),
        }
    })
}

pub fn scenario(cfgname: &str, startup: (&str, &str, &str), variant: &str, admin_only: bool) -> Scenario {
    scenario_peer(cfgname, startup, variant, admin_only, false)
}

/// `peer`: a legitimate client (alice, right password) logs in and runs a statement concurrently with the
/// attacker's connection: neither may influence the other's verdict.
pub fn scenario_peer(cfgname: &str, startup: (&str, &str, &str), variant: &str, admin_only: bool, peer: bool) -> Scenario {
    let (sname, user, db) = startup;
    let mut pool = PoolCfg::simple("db", "transaction", 2, 1, 0);
    let mut cfg;
    let mut alt: Option<String> = None;
    match cfgname {
        "cleartext" => {
            pool.users.push(UserCfg { username: "bob".into(), password: Some("bobpw".into()), pool_size: 2, extra: String::new() });
            cfg = Cfg::one(pool);
        }
        // credentials revoked by a reload: bob is taken out of the pool / the pool db2 is taken out of the file
        "bob-removed" | "pool-removed" => {
            let after = Cfg::one(pool.clone());
            pool.users.push(UserCfg { username: "bob".into(), password: Some("bobpw".into()), pool_size: 2, extra: String::new() });
            cfg = Cfg::one(pool);
            if cfgname == "pool-removed" {
                let mut p2 = PoolCfg::simple("db2", "transaction", 2, 1, 0);
                p2.shards[0].servers[0].0 = "pg-other".into();
                cfg.pools.push(p2);
            }
            alt = Some(after.toml());
        }
        "trust" => {
            pool.users[0].extra = "auth_type = \"trust\"\n".into();
            cfg = Cfg::one(pool);
        }
        _ => {
            pool.users[0].password = None;
            if cfgname == "authquery-two" {
                // two users without a configured password: each has its own hash on the server
                pool.users.push(UserCfg { username: "bob".into(), password: None, pool_size: 2, extra: String::new() });
            }
            cfg = Cfg::one(pool);
            cfg.general_extra = "auth_query = \"SELECT usename, passwd FROM pg_shadow WHERE usename='$1'\"\nauth_query_user = \"authuser\"\nauth_query_password = \"authpw\"\n".into();
            cfg.connect_timeout = 1000;
        }
    }
    let mut servers = cfg.servers();
    let md5 = |pw: &str, u: &str| format!("md5{}", wire::md5_hex(format!("{}{}", pw, u).as_bytes()));
    match cfgname {
        "authquery" | "authquery-late" | "authquery-changed" | "authquery-moved" => {
            servers[0].shadow.insert("alice".into(), md5("alicepw", "alice"));
        }
        "authquery-two" => {
            servers[0].shadow.insert("alice".into(), md5("alicepw", "alice"));
            servers[0].shadow.insert("bob".into(), md5("bobpw", "bob"));
        }
        _ => {}
    }
    if cfgname == "authquery-late" {
        servers[0].accept = Accept::Refuse;
    }
    let addr = servers[0].addr.clone();
    let mut env_steps: Vec<Step> = Vec::new();
    if cfgname == "authquery-late" {
        let a = addr.clone();
        env_steps.push(Step::Call("server comes up".into(), Arc::new(move |n| n.servers.get_mut(&a).unwrap().accept = Accept::Up)));
    }
    if cfgname == "authquery-moved" {
        // the pool is moved to another server, which is down while the RELOAD runs and comes up afterwards
        // with another password for alice: what the old server vouched for is worth nothing any more
        let mut moved = cfg.clone();
        moved.pools[0].shards[0].servers[0].0 = "pg-new".into();
        alt = Some(moved.toml());
        let mut sp = crate::mockpg::ServerSpec::new("pg-new:5432", "pg-new");
        sp.accept = Accept::Refuse;
        sp.shadow.insert("alice".into(), md5("newpw", "alice"));
        servers.push(sp);
    }
    if cfgname == "authquery-changed" {
        let a = addr.clone();
        let h = md5("newpw", "alice");
        env_steps.push(Step::Call("password changed on the server".into(), Arc::new(move |n| {
            n.servers.get_mut(&a).unwrap().shadow.insert("alice".into(), h.clone());
        })));
    }
    if alt.is_some() {
        env_steps.push(Step::WriteConfig(0));
        env_steps.push(Step::Admin("RELOAD".into()));
    }
    if cfgname == "authquery-moved" {
        env_steps.push(Step::Call("pg-new comes up".into(), Arc::new(|n| n.servers.get_mut("pg-new:5432").unwrap().accept = Accept::Up)));
    }
    if admin_only {
        env_steps.push(Step::Shutdown);
    }
    let pw = real_password(cfgname, user).unwrap_or("whatever");
    let mut params: Vec<(&str, &str)> = vec![("user", user)];
    if !db.is_empty() {
        params.push(("database", db));
    }
    let mut s = Script::new("attacker").wait(Cond::ActorsDone(vec![1]));
    if variant == "replayed-salt" {
        // a first connection only to collect a salt, then dropped
        s = s.step(Step::Open).send(wire::startup(&params), "startup").wait(Cond::Msgs(1)).close(CloseKind::HardDrop);
    }
    s = s.step(Step::Open).send(wire::startup(&params), "startup").wait(Cond::Msgs(1));
    s = s.step(Step::SendDyn(variant.to_string(), variant_bytes(variant, user, pw)));
    s = s.send(wire::query(&format!("SELECT 'in' /*{}*/", tag(0, 0, 0))), "Q tagged (sent at once)");
    s = s.wait(Cond::ZOrClosed(2));
    s = s.close(CloseKind::HardDrop);
    let mut actors = vec![s.actor(), env("env", env_steps)];
    if peer {
        let ppw = real_password(cfgname, "alice").unwrap_or("alicepw");
        let p = Script::new("peer")
            .wait(Cond::ActorsDone(vec![1]))
            .connect("alice", "db", Some(ppw))
            .q(&format!("SELECT 'peer' /*{}*/", tag(2, 0, 0)))
            .terminate();
        actors.push(p.actor());
    }
    Scenario {
        name: format!("C09 cfg={} startup={} variant={} admin_only={}{}", cfgname, sname, variant, admin_only, if peer { " peer=yes" } else { "" }),
        toml: cfg.toml(),
        alt_tomls: alt.into_iter().collect(),
        servers,
        actors,
        opts: Opts { horizon_ms: 4000, ..Opts::default() },
        meta: serde_json::json!({"cfg": cfgname, "user": user, "db": db, "variant": variant, "admin_only": admin_only, "peer": peer}),
    }
}

/// Reference predicate: must this connection be admitted?
fn must_admit(cfgname: &str, user: &str, db: &str, variant: &str, admin_only: bool) -> Option<bool> {
    let pool_name = if db.is_empty() { user } else { db };
    let admin_db = pool_name == "pgcat" || pool_name == "pgbouncer";
    if admin_db {
        if user != "admin_user" {
            // admin db requires the admin credentials: whoever claims another user must not get in
            return Some(false);
        }
        return Some(variant == "correct");
    }
    if admin_only {
        return Some(false);
    }
    // (after the reload of "bob-removed" / "pool-removed" only alice@db is left)
    let configured = pool_name == "db" && (user == "alice" || (user == "bob" && (cfgname == "cleartext" || cfgname == "authquery-two")));
    if !configured {
        return Some(false);
    }
    if cfgname == "trust" {
        return Some(true);
    }
    if cfgname == "authquery-absent" {
        return Some(false);
    }
    if variant == "old-password" {
        // after a password change on the same server the pooler may still hold the hash it fetched before
        // (it re-fetches when an answer does not match): the property does not say how fresh the secret is
        if cfgname == "authquery-changed" {
            return None;
        }
        return Some(real_password(cfgname, user) == Some("alicepw"));
    }
    Some(variant == "correct")
}

/// The challenge must be fresh on every connection: 96 connections (pool user and admin) are opened up to
/// the MD5 challenge; no salt may be issued twice (a repeat makes a recorded response replayable; with
/// 32 random bits a repeat among 96 has probability 1e-6).
pub fn salt_scenario() -> Scenario {
    let cfg = Cfg::one(PoolCfg::simple("db", "transaction", 1, 1, 0));
    let servers = cfg.servers();
    let mut s = Script::new("c0");
    for i in 0..96 {
        let (user, db) = if i % 3 == 2 { ("admin_user", "pgcat") } else { ("alice", "db") };
        s = s.step(Step::Open).send(wire::startup(&[("user", user), ("database", db)]), "startup").wait(Cond::Msgs(1)).close(CloseKind::HardDrop);
    }
    Scenario {
        name: "C09 salts: 96 connections up to the MD5 challenge".into(),
        toml: cfg.toml(),
        alt_tomls: vec![],
        servers,
        actors: vec![s.actor()],
        opts: Opts { max_events: 1000, ..Opts::default() },
        meta: serde_json::json!({"salts": true}),
    }
}

fn salt_oracle(out: &Outcome) -> Vec<Violation> {
    let mut seen: std::collections::BTreeMap<Vec<u8>, usize> = std::collections::BTreeMap::new();
    let mut n = 0;
    for e in &out.log {
        if let Rec::CRecv { c: 0, msg } = &e.rec {
            if msg.code == b'R' && msg.body.len() == 8 && msg.body[..4] == [0, 0, 0, 5] {
                n += 1;
                *seen.entry(msg.body[4..8].to_vec()).or_insert(0) += 1;
            }
        }
    }
    let mut vs = Vec::new();
    if let Some((salt, k)) = seen.iter().find(|(_, k)| **k > 1) {
        vs.push(v(
            "C09.salt-reused",
            "C09.salt-reused".to_string(),
            format!("{} MD5 challenges were issued with only {} distinct salts; salt {:02x?} was issued {} times: a recorded password response can be replayed", n, seen.len(), salt, k),
        ));
    }
    if n < 90 {
        vs.push(v("C09.salt-scenario", "C09.salt-scenario-incomplete".to_string(), format!("only {} MD5 challenges were observed", n)));
    }
    vs
}

pub fn oracle(sc: &Scenario, out: &Outcome) -> Vec<Violation> {
    if sc.meta.get("salts").is_some() {
        return salt_oracle(out);
    }
    let log = &out.log;
    let mut vs = Vec::new();
    let m = &sc.meta;
    let (cfgname, user, db, variant, admin_only) = (m["cfg"].as_str().unwrap(), m["user"].as_str().unwrap(), m["db"].as_str().unwrap(), m["variant"].as_str().unwrap(), m["admin_only"].as_bool().unwrap());
    let ctx = format!("cfg={}:user={}:db={}:variant={}:admin_only={}", cfgname, user, if db.is_empty() { "-" } else { db }, variant, admin_only);
    // messages of the attacker's last connection: after the last "opened" note
    let last_open = log.iter().rposition(|e| matches!(&e.rec, Rec::Note { msg } if msg.starts_with("client actor=0 opened"))).unwrap_or(0);
    let msgs: Vec<_> = log[last_open..]
        .iter()
        .filter_map(|e| match &e.rec {
            Rec::CRecv { c: 0, msg } => Some(msg.clone()),
            _ => None,
        })
        .collect();
    let auth_ok = msgs.iter().any(|m| m.code == b'R' && m.body == 0i32.to_be_bytes());
    let got_z = msgs.iter().any(|m| m.code == b'Z');
    let want = must_admit(cfgname, user, db, variant, admin_only);
    // nothing tagged reaches a backend before / without AuthenticationOk
    let tagged_at_backend = log.iter().any(|e| matches!(&e.rec, Rec::BRecv { msg, .. } if msg_tag(msg).map(|t| t.c == 0).unwrap_or(false)));
    if !auth_ok && tagged_at_backend {
        vs.push(v("C09.bytes-before-auth", format!("C09.bytes-before-auth:{}", ctx), "a statement of an unauthenticated client reached a server".into()));
    }
    if m["peer"].as_bool().unwrap_or(false) {
        let peer_must = must_admit(cfgname, "alice", "db", "correct", admin_only) == Some(true);
        let pm = client_msgs(log, 2);
        let peer_ok = pm.iter().any(|(_, m)| m.code == b'R' && m.body == 0i32.to_be_bytes());
        let peer_ran = log.iter().any(|e| matches!(&e.rec, Rec::BExec { sql, .. } if find_tag(sql.as_bytes()).map(|t| t.c == 2).unwrap_or(false)));
        if peer_must && !(peer_ok && peer_ran) {
            vs.push(v(
                "C09.refused",
                format!("C09.peer-refused:cfg={}:attacker={}:variant={}", cfgname, user, variant),
                format!("a client with valid credentials logging in next to the attacker's connection was not served ({}); it received {}", ctx, pm.iter().map(|(_, m)| describe(m)).collect::<Vec<_>>().join(" ")),
            ));
        }
        if !peer_must && peer_ok {
            vs.push(v("C09.admitted", format!("C09.peer-admitted:cfg={}:attacker={}:variant={}", cfgname, user, variant), format!("the peer client was admitted although the reference predicate refuses it ({})", ctx)));
        }
    }
    match want {
        Some(false) => {
            if auth_ok {
                vs.push(v(
                    "C09.admitted",
                    format!("C09.admitted:cfg={}:user={}:db={}:variant={}", cfgname, user, if db.is_empty() { "-" } else { db }, variant),
                    format!("client was sent AuthenticationOk although the reference predicate refuses it ({})", ctx),
                ));
            }
            let _ = got_z; // an ErrorResponse + ReadyForQuery before closing is not forbidden by the property
        }
        Some(true) => {
            if !auth_ok {
                vs.push(v(
                    "C09.refused",
                    format!("C09.refused:cfg={}:user={}:variant={}", cfgname, user, variant),
                    format!("valid credentials were not admitted ({}); messages: {}", ctx, msgs.iter().map(describe).collect::<Vec<_>>().join(" ")),
                ));
            }
        }
        None => {}
    }
    vs
}

pub fn build(tier: &str) -> SimCheck {
    let thorough = tier == "thorough";
    let mut scenarios = Vec::new();
    for cfgname in CONFIGS {
        for st in STARTUPS {
            for variant in VARIANTS {
                for admin_only in [false, true] {
                    if !thorough {
                        // quick: full variant list for the interesting startups, a reduced list elsewhere
                        let key = st.0 == "alice@db" || st.0 == "admin@pgcat" || (*cfgname == "authquery-two" && st.0 == "bob@db");
                        if !key && !["correct", "wrong", "query-instead", "nothing", "old-password"].contains(variant) {
                            continue;
                        }
                        if admin_only && !["correct", "wrong", "query-instead"].contains(variant) {
                            continue;
                        }
                    }
                    scenarios.push(scenario(cfgname, *st, variant, admin_only));
                }
            }
        }
    }
    // a legitimate login racing the attacker's connection, all interleavings with <= 2 deviations
    for cfgname in CONFIGS {
        for st in STARTUPS {
            for variant in VARIANTS {
                let key = st.0 == "alice@db" || st.0 == "admin@pgcat" || (*cfgname == "authquery-two" && st.0 == "bob@db");
                if !thorough && !(key && ["correct", "wrong", "other-user", "replayed-salt", "query-instead", "nothing", "garbage"].contains(variant)) {
                    continue;
                }
                scenarios.push(scenario_peer(cfgname, *st, variant, false, true));
            }
        }
    }
    scenarios.push(salt_scenario());
    SimCheck {
        scenarios,
        oracle: Box::new(oracle),
        bound: 2,
        limits: Limits { max_wall_s: if thorough { 1500.0 } else { 150.0 }, ..Default::default() },
        rule: "scenario = auth configuration (cleartext, trust, auth_query with hash present / absent / server down at pool creation / changed later / two users each with a hash of its own; a user / a whole pool taken out of the file by a RELOAD before the attempt; the pool moved by a RELOAD to another server that is down at that moment and knows another password) x startup (db,user) pair (configured, other user, unknown user/db, admin db in two spellings, non-admin user on the admin db, user only) x message sent in place of PasswordMessage (18 kinds incl. replayed salt, truncated, oversized, wrong type) followed at once by a tagged query x shutting down or not; verdict compared with the reference admission predicate; the same with a legitimate client logging in and running a statement concurrently (all interleavings with <= 2 deviations: neither connection may change the other's verdict); plus 96 connections opened up to the MD5 challenge: no salt issued twice".into(),
        assumptions: vec!["TLS startup not exercised".into()],
    }
}
