//! C17 — shutdown is graceful.
//!
//! The accept / signal / drain loop of `src/main.rs` is extracted verbatim at
//! build time (harness/build.rs) and run inside the sim engine: client
//! connections are handed to its listener, SIGINT / SIGTERM / SIGHUP to its
//! signal streams, and the admin `SHUTDOWN` command raises SIGINT through the
//! `verif::signal` hook. "The process exits" is the loop returning.

use super::c03::{after_login, client_sent_msgs, norm};
use super::common::*;
use super::SimCheck;
use crate::cfg::{env, Cfg, PoolCfg, Script};
use crate::explore::{Limits, Violation};
use crate::mockpg::{reference_replies, Entry, Rec};
use crate::wire::{self, Msg};
use crate::world::{CloseKind, Cond, Opts, Outcome, Scenario, Step};

pub const TIMEOUT_MS: u64 = 1000;
/// the signal lands here in the default schedule
pub const T_SIG: u64 = 100;
/// tolerated distance between the instant the exit is due and the instant it happens
pub const EXIT_SLACK_MS: u64 = 100;
pub const ADMIN_MSG: &str = "terminating connection due to administrator command";

pub const CLIENT_PROGS: &[&str] = &[
    "idle", "txn-slow", "txn-never", "autos", "ext-slow", "copy-slow", "drop-early", "drop-in-txn-early", "term-early", "badpw", "late", "late-slow", "session", "drop-after", "idle-then-q", "cancel-early", "slow-login", "half-batch-idle", "login-at-60",
];
pub const ADMIN_PROGS: &[&str] = &["none", "admin-early", "admin-late", "admin-split"];
pub const SIGNALS: &[&str] = &["INT", "SHUTDOWN", "TERM", "INT+INT", "HUP+INT", "INT+TERM", "HUP", "none", "INT-at-0", "PAUSE+INT"];

fn kind_of(prog: &str) -> &'static str {
    match prog {
        "session" => "session",
        p if p.starts_with("admin") => "admin",
        _ => "txn",
    }
}

fn client(c: usize, prog: &str) -> Script {
    let t = |j: usize, k: usize| tag(c, j, k);
    let name = format!("c{}", c);
    let login = |s: Script| s.connect("alice", "db", Some("alicepw"));
    match prog {
        "idle" => login(Script::new(&name)).wait(Cond::Closed),
        "txn-slow" => login(Script::new(&name))
            .q(&format!("BEGIN /*{}*/", t(0, 0)))
            .q(&format!("SELECT 1 /*{}*/", t(0, 1)))
            .wait(Cond::TimeMs(300))
            .q(&format!("SELECT 2 /*{}*/", t(0, 2)))
            .q(&format!("COMMIT /*{}*/", t(0, 3)))
            .q(&format!("SELECT 3 /*{}*/", t(1, 0)))
            .terminate(),
        "txn-never" => login(Script::new(&name)).q(&format!("BEGIN /*{}*/", t(0, 0))).q(&format!("SELECT 1 /*{}*/", t(0, 1))).wait(Cond::TimeMs(5000)).q(&format!("COMMIT /*{}*/", t(0, 2))).terminate(),
        "autos" => login(Script::new(&name))
            .q(&format!("SELECT 1 /*{}*/", t(0, 0)))
            .q(&format!("SELECT 2 /*{}*/", t(1, 0)))
            .wait(Cond::TimeMs(200))
            .q(&format!("SELECT 3 /*{}*/", t(2, 0)))
            .terminate(),
        "idle-then-q" => login(Script::new(&name)).wait(Cond::TimeMs(T_SIG)).q(&format!("SELECT 1 /*{}*/", t(0, 0))).q(&format!("SELECT 2 /*{}*/", t(1, 0))).terminate(),
        "ext-slow" => {
            let mut b1 = wire::parse("", &format!("SELECT 1 /*{}*/", t(0, 1)), &[]);
            b1.extend(wire::bind("", "", &[], &[], &[]));
            b1.extend(wire::execute("", 0));
            b1.extend(wire::sync());
            let mut b2 = wire::parse("", &format!("SELECT 2 /*{}*/", t(0, 2)), &[]);
            b2.extend(wire::bind("", "", &[], &[], &[]));
            b2.extend(wire::execute("", 0));
            b2.extend(wire::sync());
            login(Script::new(&name))
                .q(&format!("BEGIN /*{}*/", t(0, 0)))
                .send_z(b1, "P B E S")
                .wait(Cond::TimeMs(300))
                .send_z(b2, "P B E S")
                .q(&format!("COMMIT /*{}*/", t(0, 3)))
                .terminate()
        }
        "copy-slow" => login(Script::new(&name))
            .send(wire::query(&format!("COPY t FROM STDIN /*{}*/", t(0, 0))), "Q COPY FROM STDIN")
            .wait(Cond::CodeOrClosed(b'G', 1))
            .send(wire::copy_data(format!("r {}\n", t(0, 1)).as_bytes()), "d")
            .wait(Cond::TimeMs(300))
            .send(wire::copy_data(format!("r {}\n", t(0, 2)).as_bytes()), "d")
            .send_z(wire::copy_done(), "c")
            .terminate(),
        "drop-early" => login(Script::new(&name)).q(&format!("SELECT 1 /*{}*/", t(0, 0))).close(CloseKind::HardDrop),
        "drop-in-txn-early" => login(Script::new(&name)).q(&format!("BEGIN /*{}*/", t(0, 0))).q(&format!("SELECT 1 /*{}*/", t(0, 1))).close(CloseKind::HardDrop),
        "term-early" => login(Script::new(&name)).q(&format!("SELECT 1 /*{}*/", t(0, 0))).terminate(),
        // a CancelRequest connection (nobody's key) before the signal: it comes and goes through the same counter
        "cancel-early" => Script::new(&name).step(Step::Cancel(crate::world::CancelKey::Raw(4242, 2424))),
        "badpw" => Script::new(&name).connect("alice", "db", Some("wrong")).wait(Cond::Closed),
        // logs in a little before the signal (after the PAUSE of the PAUSE+INT pattern) and sends nothing
        "login-at-60" => Script::new(&name).wait(Cond::TimeMs(60)).connect("alice", "db", Some("alicepw")).wait(Cond::Closed),
        // Parse and Bind sent, no Sync yet: nothing has started, the client is between transactions
        "half-batch-idle" => {
            let mut b = wire::parse("", &format!("SELECT 1 /*{}*/", t(0, 0)), &[]);
            b.extend(wire::bind("", "", &[], &[], &[]));
            login(Script::new(&name)).send(b, "P B (no Sync)").wait(Cond::Closed)
        }
        // the TCP connection is accepted before the signal, startup and password are sent after it
        "slow-login" => Script::new(&name)
            .step(Step::Open)
            .wait(Cond::TimeMs(T_SIG + 60))
            .send(wire::startup(&[("user", "alice"), ("database", "db")]), "startup")
            .wait(Cond::Msgs(1))
            .step(Step::SendDyn(
                "password".into(),
                std::sync::Arc::new(|salt: Option<[u8; 4]>, _| wire::password_message(&wire::md5_password_body("alice", "alicepw", &salt.unwrap_or([1, 2, 3, 4])))),
            ))
            .wait(Cond::Closed),
        "late" => Script::new(&name).wait(Cond::TimeMs(T_SIG + 60)).connect("alice", "db", Some("alicepw")).q(&format!("SELECT 1 /*{}*/", t(0, 0))).terminate(),
        "late-slow" => Script::new(&name).wait(Cond::TimeMs(T_SIG + 500)).connect("alice", "db", Some("alicepw")).q(&format!("SELECT 1 /*{}*/", t(0, 0))).terminate(),
        "session" => Script::new(&name)
            .connect("alice", "sdb", Some("alicepw"))
            .q(&format!("SELECT 1 /*{}*/", t(0, 0)))
            .wait(Cond::TimeMs(300))
            .q(&format!("SELECT 2 /*{}*/", t(1, 0)))
            .terminate(),
        "drop-after" => login(Script::new(&name)).q(&format!("BEGIN /*{}*/", t(0, 0))).q(&format!("SELECT 1 /*{}*/", t(0, 1))).wait(Cond::TimeMs(300)).close(CloseKind::HardDrop),
        "admin-early" => Script::new(&name).connect("admin_user", "pgcat", Some("admin_pass")).q("SHOW POOLS").wait(Cond::TimeMs(400)).q("SHOW POOLS").q("SHOW VERSION").wait(Cond::Closed),
        "admin-late" => Script::new(&name).wait(Cond::TimeMs(T_SIG + 60)).connect("admin_user", "pgcat", Some("admin_pass")).q("SHOW POOLS").wait(Cond::TimeMs(400)).q("SHOW VERSION").wait(Cond::Closed),
        "admin-split" => {
            // a query whose bytes arrive in two TCP segments, the signal possibly in between
            let qb = wire::query("SHOW POOLS");
            let (a, b) = qb.split_at(7);
            let mut s = Script::new(&name).connect("admin_user", "pgcat", Some("admin_pass")).q("SHOW VERSION").send(a.to_vec(), "Q SHOW POOLS [first 7 bytes]").wait(Cond::TimeMs(400)).send(b.to_vec(), "Q SHOW POOLS [rest]");
            s.z += 1;
            s.wait_z().q("SHOW VERSION").wait(Cond::Closed)
        }
        _ => panic!("unknown program {}", prog),
    }
}

fn signal_actor(sig: &str) -> Vec<Step> {
    let end = Step::Wait(Cond::TimeMs(T_SIG + 500 + TIMEOUT_MS + 400));
    let at = |t: u64| Step::Wait(Cond::TimeMs(t));
    match sig {
        "INT" => vec![at(T_SIG), Step::Signal("INT"), end],
        "INT-at-0" => vec![Step::Signal("INT"), end],
        "SHUTDOWN" => vec![at(T_SIG), Step::Admin("SHUTDOWN".into()), end],
        "TERM" => vec![at(T_SIG), Step::Signal("TERM"), end],
        "INT+INT" => vec![at(T_SIG), Step::Signal("INT"), at(T_SIG + 500), Step::Signal("INT"), end],
        "HUP+INT" => vec![at(40), Step::Signal("HUP"), at(T_SIG), Step::Signal("INT"), end],
        "INT+TERM" => vec![at(T_SIG), Step::Signal("INT"), at(T_SIG + 150), Step::Signal("TERM"), end],
        "HUP" => vec![at(T_SIG), Step::Signal("HUP"), end],
        // the pools are paused (and stay so) when the signal arrives
        "PAUSE+INT" => vec![at(40), Step::Admin("PAUSE".into()), at(T_SIG), Step::Signal("INT"), end],
        "none" => vec![end],
        _ => panic!("signal"),
    }
}

pub fn scenario(progs: &[&str], sig: &str) -> Scenario {
    let mut cfg = Cfg::one(PoolCfg::simple("db", "transaction", 3, 1, 0));
    let mut p2 = PoolCfg::simple("sdb", "session", 2, 1, 0);
    p2.shards[0].servers[0].0 = "pg-other".into();
    cfg.pools.push(p2);
    cfg.shutdown_timeout = TIMEOUT_MS;
    let servers = cfg.servers();
    let mut actors: Vec<_> = progs.iter().enumerate().map(|(i, p)| client(i, p).actor()).collect();
    actors.push(env("signals", signal_actor(sig)));
    Scenario {
        name: format!("C17 clients={} signal={}", progs.join("+"), sig),
        toml: cfg.toml(),
        alt_tomls: vec![cfg.toml()],
        servers,
        actors,
        opts: Opts { main_loop: true, horizon_ms: 8000, ..Opts::default() },
        meta: serde_json::json!({"progs": progs, "signal": sig}),
    }
}

#[derive(Clone, Copy, Debug)]
struct At {
    seq: usize,
    t: u64,
}

fn is_admin_err(m: &Msg) -> bool {
    m.code == b'E' && m.err_field(b'M').map(|s| s.contains("administrator command")).unwrap_or(false)
}

fn left_at(log: &[Entry], c: usize) -> Option<At> {
    for e in log {
        match &e.rec {
            Rec::CEof { c: cc } if *cc == c => return Some(At { seq: e.seq, t: e.t_ms }),
            Rec::CClosed { c: cc, .. } if *cc == c => return Some(At { seq: e.seq, t: e.t_ms }),
            Rec::CSend { c: cc, bytes } if *cc == c && bytes.as_slice() == wire::terminate().as_slice() => return Some(At { seq: e.seq, t: e.t_ms }),
            _ => {}
        }
    }
    None
}

pub fn oracle(sc: &Scenario, out: &Outcome) -> Vec<Violation> {
    let log = &out.log;
    let mut vs = Vec::new();
    let progs: Vec<String> = sc.meta["progs"].as_array().unwrap().iter().map(|x| x.as_str().unwrap().to_string()).collect();
    let sig = sc.meta["signal"].as_str().unwrap();
    let ctx = format!("signal={}", sig);
    for p in has_panic(log) {
        vs.push(v("C17.panic", format!("C17.panic:{}", ctx), p));
    }
    // --- signals and exit
    let mut ints: Vec<At> = Vec::new();
    let mut terms: Vec<At> = Vec::new();
    let mut exit: Option<At> = None;
    for e in log {
        match &e.rec {
            Rec::Event { label, .. } if label == "signal(INT)" => ints.push(At { seq: e.seq, t: e.t_ms }),
            Rec::Event { label, .. } if label == "signal(TERM)" => terms.push(At { seq: e.seq, t: e.t_ms }),
            Rec::Note { msg } if msg.starts_with("SIGNAL-RAISED SIGINT") => ints.push(At { seq: e.seq, t: e.t_ms }),
            Rec::Note { msg } if msg == "MAIN-LOOP-EXIT" && exit.is_none() => exit = Some(At { seq: e.seq, t: e.t_ms }),
            _ => {}
        }
    }
    let int0 = ints.first().copied();
    let term0 = terms.first().copied();
    let exit_seq = exit.map(|x| x.seq).unwrap_or(usize::MAX);
    // the client-side reader logs what the pooler wrote a little after the loop's own exit note: anything
    // logged up to the instant of the exit belongs to the process's lifetime
    let exit_t = exit.map(|x| x.t);
    let before_exit = |seq: usize| exit_t.map(|t| log[seq].t_ms <= t).unwrap_or(true);
    // (1) never exit without SIGINT / SIGTERM
    if let Some(x) = exit {
        let caused = int0.map(|i| i.seq < x.seq).unwrap_or(false) || term0.map(|t| t.seq < x.seq).unwrap_or(false);
        if !caused {
            vs.push(v("C17.exit-without-signal", format!("C17.exit-without-signal:{}", ctx), format!("the main loop ended at t={}ms without SIGINT or SIGTERM", x.t)));
        }
    }
    // (2) SIGTERM exits immediately
    if let Some(t) = term0 {
        match exit {
            Some(x) if x.seq < t.seq => {}
            // "immediately": within the same instant, give or take a scheduler turn (100 ms of slack so that
            // a harmless yield or log flush before leaving the loop is not an alarm)
            Some(x) if x.t <= t.t + EXIT_SLACK_MS => {}
            Some(x) => vs.push(v("C17.term-not-immediate", format!("C17.term-not-immediate:{}", ctx), format!("SIGTERM at t={}ms, exit at t={}ms", t.t, x.t))),
            None => vs.push(v("C17.term-not-immediate", format!("C17.term-no-exit:{}", ctx), format!("SIGTERM at t={}ms, the main loop never ended", t.t))),
        }
    }
    // per-client facts
    struct Cl {
        c: usize,
        prog: String,
        kind: &'static str,
        open: Option<At>,
        login: Option<At>,
        left: Option<At>,
    }
    let mut cls: Vec<Cl> = Vec::new();
    for (c, p) in progs.iter().enumerate() {
        let name = format!("c{}", c);
        let open = log.iter().find(|e| matches!(&e.rec, Rec::Event { actor, label, .. } if *actor == name && (label.starts_with("connect(") || label == "open"))).map(|e| At { seq: e.seq, t: e.t_ms });
        let login = log.iter().find(|e| matches!(&e.rec, Rec::CRecv { c: cc, msg } if *cc == c && msg.code == b'Z')).map(|e| At { seq: e.seq, t: e.t_ms });
        cls.push(Cl { c, prog: p.clone(), kind: kind_of(p), open, login, left: left_at(log, c) });
    }
    // the env actor's own admin connection (SHUTDOWN command) lives in the extra slot and is an admin client
    // (3) exit time after SIGINT
    if let (Some(i), true) = (int0, term0.map(|t| exit.map(|x| x.seq < t.seq).unwrap_or(false)).unwrap_or(true)) {
        let deadline = i.t + TIMEOUT_MS;
        match exit {
            None => vs.push(v("C17.no-exit", format!("C17.no-exit:{}", ctx), format!("SIGINT at t={}ms; no exit by t={}ms (shutdown_timeout {}ms)", i.t, out.final_ms, TIMEOUT_MS))),
            Some(x) if x.seq < i.seq => {}
            Some(x) => {
                if x.t > deadline {
                    vs.push(v("C17.exit-after-timeout", format!("C17.exit-after-timeout:{}", ctx), format!("SIGINT at t={}ms, exit only at t={}ms (shutdown_timeout {}ms)", i.t, x.t, TIMEOUT_MS)));
                }
                // counted clients: non-admin, logged in before the exit
                let counted: Vec<&Cl> = cls.iter().filter(|k| k.kind != "admin" && k.login.map(|l| l.seq < x.seq).unwrap_or(false)).collect();
                let still_here: Vec<&&Cl> = counted.iter().filter(|k| k.left.map(|l| l.t > x.t).unwrap_or(true)).collect();
                if x.t < deadline {
                    for k in &still_here {
                        // only clients that had finished logging in when the signal arrived are judged
                        if k.login.unwrap().seq < i.seq {
                            let in_txn = in_progress_at(log, k.c, x.seq);
                            vs.push(v(
                                "C17.exit-early",
                                format!("C17.exit-early:{}:{}", if in_txn { "in-transaction" } else { "connected" }, ctx),
                                format!("exit at t={}ms (SIGINT t={}ms, timeout {}ms) while client {} ({}) was still connected{}", x.t, i.t, TIMEOUT_MS, k.c, k.prog, if in_txn { " with a transaction in progress" } else { "" }),
                            ));
                        }
                    }
                }
                if still_here.is_empty() {
                    let t_all = counted.iter().map(|k| k.left.unwrap().t).max().unwrap_or(0);
                    let expected = t_all.max(i.t);
                    if expected + EXIT_SLACK_MS < deadline && x.t > expected + EXIT_SLACK_MS {
                        vs.push(v(
                            "C17.exit-late",
                            format!("C17.exit-late:{}", ctx),
                            format!("all non-admin clients had left by t={}ms and SIGINT came at t={}ms, but the exit came at t={}ms", t_all, i.t, x.t),
                        ));
                    }
                }
            }
        }
    }
    // (4) refusal of new non-admin clients, admission of admin clients
    if let Some(i) = int0 {
        for k in &cls {
            let Some(o) = k.open else { continue };
            if o.seq < i.seq || !before_exit(o.seq) {
                continue;
            }
            let msgs: Vec<(usize, &Msg)> = client_msgs(log, k.c).into_iter().filter(|(s, _)| before_exit(*s)).collect();
            if k.kind == "admin" {
                if k.login.map(|l| before_exit(l.seq)).unwrap_or(false) || exit.map(|x| x.t == o.t).unwrap_or(false) {
                    // fine
                } else {
                    vs.push(v("C17.admin-refused", format!("C17.admin-refused:{}", ctx), format!("admin client {} connecting after SIGINT was not admitted: {:?}", k.c, msgs.iter().map(|(_, m)| describe(m)).collect::<Vec<_>>())));
                }
            } else if k.prog != "badpw" {
                let admitted = msgs.iter().any(|(_, m)| m.code == b'Z' || (m.code == b'R' && m.body.len() >= 4 && m.body[..4] == [0, 0, 0, 0]));
                let refused = msgs.iter().any(|(_, m)| is_admin_err(m));
                // there is something to refuse once the startup packet has been sent (at an instant before the exit)
                let asked = log.iter().find(|e| e.seq > o.seq && matches!(&e.rec, Rec::CSend { c, .. } if *c == k.c)).map(|e| e.t_ms);
                let asked_before_exit = match (asked, exit) {
                    (Some(a), Some(x)) => a < x.t,
                    (Some(_), None) => true,
                    (None, _) => false,
                };
                if admitted || (!refused && asked_before_exit) {
                    vs.push(v(
                        "C17.late-client-admitted",
                        format!("C17.late-client-admitted:{}", ctx),
                        format!("non-admin client {} connected after SIGINT and received {:?}", k.c, msgs.iter().map(|(_, m)| describe(m)).collect::<Vec<_>>()),
                    ));
                }
                for e in log.iter() {
                    if let Rec::BRecv { msg, .. } = &e.rec {
                        if msg_tag(msg).map(|t| t.c == k.c).unwrap_or(false) {
                            vs.push(v("C17.late-client-admitted", format!("C17.late-client-served:{}", ctx), format!("statement of client {} (connected after SIGINT) reached a backend: {}", k.c, describe(msg))));
                            break;
                        }
                    }
                }
            }
        }
    }
    // (5)+(6) per-client stream: reference prefix, then the administrator-command error at a transaction boundary
    for k in &cls {
        if k.login.is_none() {
            continue;
        }
        let got_all: Vec<(usize, Msg)> = {
            let mut seen_z = false;
            let mut o = Vec::new();
            for (s, m) in client_msgs(log, k.c) {
                if !seen_z {
                    if m.code == b'Z' {
                        seen_z = true;
                    }
                    continue;
                }
                o.push((s, m.clone()));
            }
            o
        };
        let _ = after_login; // (same view, with sequence numbers)
        let admin_err_pos = got_all.iter().position(|(_, m)| is_admin_err(m));
        if k.kind == "admin" {
            if let Some(p) = admin_err_pos {
                if before_exit(got_all[p].0) {
                    vs.push(v("C17.admin-disconnected", format!("C17.admin-disconnected:{}", ctx), format!("admin client {} received the administrator-command error", k.c)));
                }
            }
            if let (Some(l), Some(x)) = (k.left, exit) {
                if l.t < x.t && matches!(log[l.seq].rec, Rec::CEof { .. }) {
                    vs.push(v("C17.admin-disconnected", format!("C17.admin-closed:{}", ctx), format!("admin client {} was disconnected at t={}ms, before the exit at t={}ms", k.c, l.t, x.t)));
                }
            }
            // every admin request sent before the exit gets a complete, well-formed reply
            let sent = client_sent_msgs(log, k.c);
            let nreq = sent.iter().filter(|m| m.code == b'Q').count();
            let nz = got_all.iter().filter(|(_, m)| m.code == b'Z').count();
            let errs: Vec<String> = got_all.iter().filter(|(_, m)| m.code == b'E').map(|(_, m)| m.err_field(b'M').unwrap_or_default()).collect();
            // admin replies are immediate: a query completely sent at an earlier instant than the exit must have been answered
            let last_send_t = log.iter().filter(|e| matches!(&e.rec, Rec::CSend { c: cc, .. } if *cc == k.c)).map(|e| e.t_ms).max().unwrap_or(0);
            let gone = exit_t.map(|t| last_send_t >= t).unwrap_or(false);
            if !errs.is_empty() {
                vs.push(v("C17.admin-broken", format!("C17.admin-error:{}:{}", k.prog, ctx), format!("admin client {} received errors {:?}", k.c, errs)));
            } else if nz < nreq && !gone {
                vs.push(v("C17.admin-broken", format!("C17.admin-unanswered:{}:{}", k.prog, ctx), format!("admin client {} sent {} queries and received {} replies", k.c, nreq, nz)));
            }
            continue;
        }
        let sent: Vec<Msg> = client_sent_msgs(log, k.c);
        let expected: Vec<Msg> = reference_replies(&sent, "pgcat").iter().map(norm).collect();
        let got: Vec<Msg> = got_all.iter().take(admin_err_pos.unwrap_or(usize::MAX)).map(|(_, m)| norm(m)).collect();
        let after: Vec<&Msg> = match admin_err_pos {
            Some(p) => got_all[p + 1..].iter().map(|(_, m)| m).collect(),
            None => vec![],
        };
        if !after.is_empty() {
            vs.push(v("C17.wrong-results", format!("C17.after-admin-error:{}", ctx), format!("client {} received messages after the administrator-command error: {:?}", k.c, after.iter().map(|m| describe(m)).collect::<Vec<_>>())));
        }
        let is_prefix = got.len() <= expected.len() && got.iter().zip(expected.iter()).all(|(a, b)| a == b);
        if !is_prefix {
            let i = got.iter().zip(expected.iter()).position(|(a, b)| a != b).unwrap_or(expected.len());
            vs.push(v(
                "C17.wrong-results",
                format!("C17.wrong-results:{}:{}", k.prog, ctx),
                format!(
                    "client {} ({}): reply stream differs from a direct connection at message {}: got {} expected {}",
                    k.c,
                    k.prog,
                    i,
                    got.get(i).map(describe).unwrap_or("-".into()),
                    expected.get(i).map(describe).unwrap_or("-".into())
                ),
            ));
            continue;
        }
        if let Some(p) = admin_err_pos {
            // only between transactions
            let last_z = got.iter().rev().find(|m| m.code == b'Z');
            let at_boundary = got.last().map(|m| m.code == b'Z').unwrap_or(true) && last_z.map(|m| m.body.first() == Some(&b'I')).unwrap_or(true);
            if !at_boundary {
                vs.push(v(
                    "C17.killed-in-transaction",
                    format!("C17.killed-in-transaction:{}:{}", k.prog, ctx),
                    format!("client {} ({}) received the administrator-command error inside a transaction / reply (after {:?})", k.c, k.prog, got.last().map(describe)),
                ));
            }
            let t_err = log[got_all[p].0].t_ms;
            let after_exit = exit_t.map(|t| t_err >= t).unwrap_or(false);
            if int0.map(|i| got_all[p].0 < i.seq).unwrap_or(true) && !after_exit {
                vs.push(v("C17.killed-without-signal", format!("C17.killed-without-signal:{}", ctx), format!("client {} received the administrator-command error before any SIGINT", k.c)));
            }
        }
        // (5) an idle transaction-mode client is disconnected once the signal has been seen
        if let (Some(i), "txn") = (int0, k.kind) {
            // also a client whose connection was accepted before the signal and that finished logging in
            // after it: from its ReadyForQuery on it is idle between transactions like everybody else
            let accepted_before = k.open.map(|o| o.seq < i.seq).unwrap_or(false);
            if k.login.unwrap().seq < i.seq || accepted_before {
                // first moment >= SIGINT at which the client is idle between transactions and has nothing outstanding
                let login = k.login.unwrap();
                let idle_at = if login.seq > i.seq { Some(login) } else { first_idle_after(log, k.c, i.seq, exit_seq) };
                if let Some(idle) = idle_at {
                    let own_exit = k.left.map(|l| l.seq <= idle.seq).unwrap_or(false);
                    if !own_exit {
                        let next = got_all.iter().find(|(s, _)| *s > idle.seq);
                        let ok = match next {
                            Some((s, m)) => is_admin_err(m) && log[*s].t_ms == idle.t,
                            None => false,
                        };
                        let cut_by_exit = exit.map(|x| x.t == idle.t).unwrap_or(false);
                        let left_itself_first = k.left.map(|l| !matches!(log[l.seq].rec, Rec::CEof { .. }) && l.t == idle.t && next.map(|(s, _)| l.seq < *s).unwrap_or(true)).unwrap_or(false);
                        if !ok && !cut_by_exit && !left_itself_first {
                            vs.push(v(
                                "C17.idle-not-disconnected",
                                format!("C17.idle-not-disconnected:{}:{}", k.prog, ctx),
                                format!("client {} ({}) was idle between transactions at t={}ms (SIGINT t={}ms) and next received {:?}", k.c, k.prog, idle.t, i.t, next.map(|(_, m)| describe(m))),
                            ));
                        }
                    }
                }
            }
        }
        // (6) the transaction in progress at the signal completes (unless cut by the timeout, SIGTERM or the client)
        if let Some(i) = int0 {
            if k.login.unwrap().seq < i.seq && in_progress_at(log, k.c, i.seq) {
                let nz_expected_txn_end = txn_end_index(&expected, got_count_at(log, k.c, i.seq));
                if let Some(end_idx) = nz_expected_txn_end {
                    let complete = got.len() > end_idx;
                    let timeout_cut = exit.map(|x| x.t >= i.t + TIMEOUT_MS || term0.map(|t| t.seq < x.seq).unwrap_or(false)).unwrap_or(false);
                    let client_cut = k.left.map(|l| !matches!(log[l.seq].rec, Rec::CEof { .. })).unwrap_or(false);
                    let unsent = sent_all_by(log, k.c, exit_seq);
                    if !complete && !timeout_cut && !client_cut && unsent {
                        vs.push(v(
                            "C17.transaction-cut",
                            format!("C17.transaction-cut:{}:{}", k.prog, ctx),
                            format!("client {} ({}) had a transaction in progress at SIGINT; it received {} of the {} messages that complete it", k.c, k.prog, got.len(), end_idx + 1),
                        ));
                    }
                }
            }
        }
    }
    if out.blocked && exit.is_none() {
        // nothing may hang: without an exit every script must be able to finish
        if let Some(n) = blocked_note(log) {
            let only_waiting_closed = !n.contains("send(") && !n.contains("wait(Z");
            if !only_waiting_closed {
                vs.push(v("C17.blocked", format!("C17.blocked:{}", ctx), n));
            }
        }
    }
    vs
}

/// Number of post-login messages client `c` had received before `seq`.
fn got_count_at(log: &[Entry], c: usize, seq: usize) -> usize {
    let mut seen_z = false;
    let mut n = 0;
    for (s, m) in client_msgs(log, c) {
        if s >= seq {
            break;
        }
        if !seen_z {
            if m.code == b'Z' {
                seen_z = true;
            }
            continue;
        }
        n += 1;
    }
    n
}

/// Index in `expected` of the ReadyForQuery('I') that ends the transaction open after `from` messages.
fn txn_end_index(expected: &[Msg], from: usize) -> Option<usize> {
    expected.iter().enumerate().skip(from).find(|(_, m)| m.code == b'Z' && m.body.first() == Some(&b'I')).map(|(i, _)| i)
}

/// Did the client send everything its script wanted to send for the open transaction? (true when it
/// was not prevented by its own schedule — conservatively: it sent a COMMIT / CopyDone / Sync after SIGINT)
fn sent_all_by(log: &[Entry], c: usize, exit_seq: usize) -> bool {
    log.iter().any(|e| e.seq < exit_seq && matches!(&e.rec, Rec::CSend { c: cc, bytes } if *cc == c && (String::from_utf8_lossy(bytes).contains("COMMIT") || bytes.first() == Some(&b'c'))))
}

/// Requests sent vs replies received before `seq`: a transaction (or a request) is in progress.
fn in_progress_at(log: &[Entry], c: usize, seq: usize) -> bool {
    let mut z_expected = 0usize; // requests that produce a ReadyForQuery
    let mut z_got = 0usize;
    let mut last_status = b'I';
    let mut copy_open = false;
    let mut nsend = 0;
    for e in log.iter().take_while(|e| e.seq < seq) {
        match &e.rec {
            Rec::CSend { c: cc, bytes } if *cc == c => {
                nsend += 1;
                if nsend == 1 {
                    continue;
                }
                for m in wire::split_stream(bytes).0 {
                    match m.code {
                        b'Q' | b'S' => z_expected += 1,
                        b'd' => copy_open = true,
                        _ => {}
                    }
                }
            }
            Rec::CRecv { c: cc, msg } if *cc == c => match msg.code {
                b'Z' => {
                    z_got += 1;
                    last_status = msg.body.first().copied().unwrap_or(b'I');
                    copy_open = false;
                }
                b'G' => copy_open = true,
                _ => {}
            },
            _ => {}
        }
    }
    // the login ReadyForQuery is one of z_got
    z_got < z_expected + 1 || last_status != b'I' || copy_open
}

/// First point at or after `from` (and before `until`) where the client is logged in, has no request
/// outstanding and its last ReadyForQuery said idle.
fn first_idle_after(log: &[Entry], c: usize, from: usize, until: usize) -> Option<At> {
    if !in_progress_at(log, c, from) {
        return Some(At { seq: from, t: log[from].t_ms });
    }
    for e in log.iter().filter(|e| e.seq > from && e.seq < until) {
        if let Rec::CRecv { c: cc, msg } = &e.rec {
            if *cc == c && msg.code == b'Z' && !in_progress_at(log, c, e.seq + 1) {
                return Some(At { seq: e.seq, t: e.t_ms });
            }
        }
    }
    None
}

pub fn build(tier: &str) -> SimCheck {
    let thorough = tier == "thorough";
    let mut scenarios = Vec::new();
    let mut add = |progs: &[&str], sig: &str| scenarios.push(scenario(progs, sig));
    if thorough {
        // every pair of client programs x every admin program x every signal pattern
        for (i, a) in CLIENT_PROGS.iter().enumerate() {
            for b in CLIENT_PROGS.iter().skip(i) {
                for ad in ADMIN_PROGS {
                    for sig in SIGNALS {
                        let mut p = vec![*a, *b];
                        if *ad != "none" {
                            p.push(ad);
                        }
                        add(&p, sig);
                    }
                }
            }
        }
        // triples with the exit-relevant programs
        for a in ["drop-early", "drop-in-txn-early", "term-early", "badpw"] {
            for b in ["txn-slow", "idle", "ext-slow", "session"] {
                for c in ["late", "late-slow", "autos", "txn-never"] {
                    for sig in ["INT", "SHUTDOWN", "INT+INT"] {
                        add(&[a, b, c, "admin-late"], sig);
                    }
                }
            }
        }
    } else {
        // every single client program x every signal pattern (with an admin client), and selected pairs under SIGINT / SHUTDOWN
        for a in CLIENT_PROGS {
            for sig in SIGNALS {
                add(&[a, "admin-early"], sig);
            }
        }
        for ad in ["admin-late", "admin-split"] {
            for sig in ["INT", "SHUTDOWN", "INT+INT"] {
                add(&["txn-slow", ad], sig);
                add(&["txn-never", ad], sig);
            }
        }
        // every pair of client programs under SIGINT and under the admin SHUTDOWN command
        for (i, a) in CLIENT_PROGS.iter().enumerate() {
            for b in CLIENT_PROGS.iter().skip(i) {
                for sig in ["INT", "SHUTDOWN"] {
                    add(&[a, b, "admin-late"], sig);
                }
            }
        }
    }
    SimCheck {
        scenarios,
        oracle: Box::new(oracle),
        bound: if thorough { 3 } else { 2 },
        limits: Limits { max_wall_s: if thorough { 3000.0 } else { 150.0 }, ..Default::default() },
        rule: "the accept/signal/drain loop of src/main.rs (extracted verbatim at build time) runs in the sim with the real client tasks; population = client programs (idle, slow / never-ending / extended / COPY transactions across the signal, autocommit, leaves before the signal by Terminate / hard drop / hard drop in a transaction / failed login, a cancel-request connection before the signal, a client with half a batch buffered (Parse Bind, no Sync), arrives after the signal early and late, TCP connection accepted before the signal but startup and password sent after it, session-mode, drops after the signal, statement racing the signal) + admin client (connected before, arriving after, query bytes straddling the signal) x signal pattern (SIGINT, admin SHUTDOWN, SIGTERM, SIGINT twice, SIGHUP then SIGINT, SIGINT then SIGTERM, SIGHUP only, none, SIGINT at time 0, SIGINT while the pools are paused); all schedules with <= bound deviations; shutdown_timeout 1000 ms of virtual time".into(),
        assumptions: vec![
            "process exit = the extracted main loop returning; unix signals are delivered through channels with tokio's Signal::recv shape (coalescing of signals that arrive before a recv is not modelled: two SIGINTs are two events); the admin SHUTDOWN's kill(self, SIGINT) goes through the verif::signal hook".into(),
            "a client that had not finished logging in when SIGINT arrived may be cut by the exit (not judged)".into(),
        ],
    }
}

// ---------------------------------------------------------------------------------------------
// Trace conformance against the real binary (harness/src/binconf.rs, binconf/c17_replay.py)
// ---------------------------------------------------------------------------------------------

/// What the sim observed, in terms a black-box run of the real binary can observe too.
pub fn abstract_obs(sc: &Scenario, out: &Outcome) -> serde_json::Value {
    let log = &out.log;
    let progs: Vec<String> = sc.meta["progs"].as_array().unwrap().iter().map(|x| x.as_str().unwrap().to_string()).collect();
    let mut first_sig: Option<u64> = None;
    let mut exit: Option<u64> = None;
    for e in log {
        match &e.rec {
            Rec::Event { label, .. } if label == "signal(INT)" || label == "signal(TERM)" => {
                first_sig.get_or_insert(e.t_ms);
            }
            Rec::Note { msg } if msg.starts_with("SIGNAL-RAISED SIGINT") => {
                first_sig.get_or_insert(e.t_ms);
            }
            Rec::Note { msg } if msg == "MAIN-LOOP-EXIT" => {
                exit.get_or_insert(e.t_ms);
            }
            _ => {}
        }
    }
    let clients: Vec<serde_json::Value> = progs
        .iter()
        .enumerate()
        .map(|(c, p)| {
            // the replayer watches the binary for the same window
            let horizon = T_SIG + 500 + TIMEOUT_MS + 400;
            let msgs: Vec<(usize, &Msg)> = client_msgs(log, c).into_iter().filter(|(s, _)| log[*s].t_ms <= horizon).collect();
            let nz = msgs.iter().filter(|(_, m)| m.code == b'Z').count();
            serde_json::json!({
                "name": format!("c{}", c),
                "prog": p,
                "login_ok": nz > 0,
                "n_z": nz.saturating_sub(1),
                // under SIGTERM the real process dies while its client tasks may or may not get to write the
                // administrator-command error first (both were observed on the binary): not compared
                "admin_err": if sc.meta["signal"].as_str().unwrap_or("").contains("TERM") { serde_json::Value::Null } else { serde_json::json!(msgs.iter().any(|(_, m)| is_admin_err(m))) },
                // a statement sent in the very instant of the signal may go either way in real time
                "judge": p != "idle-then-q",
            })
        })
        .collect();
    serde_json::json!({
        "exit": {"happened": exit.is_some(), "t_rel_ms": match (exit, first_sig) { (Some(x), Some(s)) => Some(x as i64 - s as i64), _ => None }},
        "clients": clients,
    })
}

/// The scripts of a scenario in a form the Python replayer executes over real sockets.
pub fn export_scenario(sc: &Scenario) -> serde_json::Value {
    let actors: Vec<serde_json::Value> = sc
        .actors
        .iter()
        .map(|a| {
            let steps: Vec<serde_json::Value> = a
                .steps
                .iter()
                .map(|s| match s {
                    Step::Connect { user, db, password, .. } => serde_json::json!({"k": "connect", "user": user, "db": db, "pw": password}),
                    Step::Send { bytes, .. } => serde_json::json!({"k": "send", "hex": bytes.iter().map(|b| format!("{:02x}", b)).collect::<String>()}),
                    Step::Wait(Cond::ZOrClosed(n)) | Step::Wait(Cond::Z(n)) => serde_json::json!({"k": "wait_z", "n": n}),
                    Step::Wait(Cond::Closed) => serde_json::json!({"k": "wait_closed"}),
                    Step::Wait(Cond::TimeMs(ms)) => serde_json::json!({"k": "wait_time", "ms": ms}),
                    Step::Wait(Cond::CodeOrClosed(code, n)) => serde_json::json!({"k": "wait_code", "code": code, "n": n}),
                    Step::Close(CloseKind::HardDrop) => serde_json::json!({"k": "close_hard"}),
                    Step::Signal(sig) => serde_json::json!({"k": "signal", "sig": sig}),
                    Step::Admin(cmd) => serde_json::json!({"k": "admin", "cmd": cmd}),
                    other => panic!("step {} cannot be replayed on the binary", other.label()),
                })
                .collect();
            serde_json::json!({"name": a.name, "steps": steps})
        })
        .collect();
    serde_json::json!({
        "name": sc.name,
        "toml": sc.toml,
        "servers": sc.servers.iter().map(|s| s.addr.clone()).collect::<Vec<_>>(),
        "actors": actors,
        "timeout_ms": TIMEOUT_MS,
        "horizon_ms": T_SIG + 500 + TIMEOUT_MS + 400,
    })
}

/// Scenarios whose default-schedule trace is replayed on the real binary: everything whose outcome
/// does not hinge on the order of two events in the same instant.
pub fn conformance_scenarios(tier: &str) -> Vec<Scenario> {
    let mut v = Vec::new();
    let sigs: Vec<&str> = SIGNALS.iter().copied().filter(|s| *s != "INT-at-0" && *s != "PAUSE+INT").collect();
    for a in CLIENT_PROGS {
        if *a == "idle-then-q" || *a == "cancel-early" || *a == "slow-login" {
            continue;
        }
        for sig in &sigs {
            v.push(scenario(&[a, "admin-early"], sig));
        }
    }
    for ad in ["admin-late", "admin-split"] {
        for sig in ["INT", "SHUTDOWN", "INT+INT"] {
            v.push(scenario(&["txn-slow", ad], sig));
            v.push(scenario(&["txn-never", ad], sig));
        }
    }
    if tier == "thorough" {
        for (i, a) in CLIENT_PROGS.iter().enumerate() {
            for b in CLIENT_PROGS.iter().skip(i) {
                if ["idle-then-q", "cancel-early", "slow-login"].contains(a) || ["idle-then-q", "cancel-early", "slow-login"].contains(b) {
                    continue;
                }
                for sig in ["INT", "SHUTDOWN"] {
                    v.push(scenario(&[a, b, "admin-late"], sig));
                }
            }
        }
    }
    v
}
