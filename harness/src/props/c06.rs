//! C06 (sim part): a statement is executed only on servers of the selected
//! shard; out-of-range SET SHARD is refused and leaves the selection
//! unchanged; the selection persists until changed.

use super::common::*;
use super::SimCheck;
use crate::cfg::{Cfg, PoolCfg, Script};
use crate::enumc::pghash;
use crate::explore::{Limits, Violation};
use crate::mockpg::Rec;
use crate::wire;
use crate::world::{Opts, Outcome, Scenario};

fn expected(k: i64, n: usize, sha1: bool) -> usize {
    if sha1 {
        pghash::sha1_shard(k, n as u64) as usize
    } else {
        pghash::pg_partition(k, n as u64) as usize
    }
}

fn sel(tagstr: &str, expect: &str) -> String {
    format!("SELECT 1 /*{} expect={}*/", tagstr, expect)
}

pub fn scenario(shards: usize, sha1: bool, prog: &str) -> Scenario {
    let mut pool = PoolCfg::sharded("db", "transaction", 2, shards, 1, 1);
    pool.extra = format!(
        "sharding_function = \"{}\"\nquery_parser_enabled = true\nquery_parser_read_write_splitting = true\nprimary_reads_enabled = true\nautomatic_sharding_key = \"data.id\"\nsharding_key_regex = '/\\* sharding_key: (\\d+) \\*/'\nshard_id_regex = '/\\* shard_id: (\\d+) \\*/'\n",
        if sha1 { "sha1" } else { "pg_bigint_hash" }
    );
    let cfg = Cfg::one(pool);
    let servers = cfg.servers();
    let mut s = Script::new("c0").connect("alice", "db", Some("alicepw"));
    let mut t = 0usize;
    let mut next = |t: &mut usize| {
        *t += 1;
        tag(0, *t, 0)
    };
    let keys: [i64; 6] = [0, 1, 7, 4_294_967_296, 123_456_789_012, i64::MAX];
    match prog {
        "set-shard-each" => {
            for i in 0..shards {
                s = s.q(&format!("SET SHARD TO '{}'", i));
                s = s.q(&sel(&next(&mut t), &i.to_string()));
                // persists for the next transaction too
                s = s.q(&sel(&next(&mut t), &i.to_string()));
            }
        }
        "set-key" => {
            for k in keys {
                s = s.q(&format!("SET SHARDING KEY TO '{}'", k));
                s = s.q(&sel(&next(&mut t), &expected(k, shards, sha1).to_string()));
            }
        }
        "out-of-range" => {
            s = s.q("SET SHARD TO '1'");
            s = s.q(&sel(&next(&mut t), "1"));
            s = s.q(&format!("SET SHARD TO '{}'", shards));
            s = s.q("SHOW SHARD");
            s = s.q(&sel(&next(&mut t), "1"));
            s = s.q(&format!("SET SHARD TO {}", shards + 88));
            s = s.q(&sel(&next(&mut t), "1"));
        }
        "any" => {
            s = s.q("SET SHARD TO ANY");
            s = s.q(&sel(&next(&mut t), "any"));
            s = s.q("SET SHARD TO '0'");
            s = s.q(&sel(&next(&mut t), "0"));
        }
        "comment" => {
            for k in keys {
                let e = expected(k, shards, sha1);
                s = s.q(&format!("/* sharding_key: {} */ SELECT 1 /*{} expect={}*/", k, next(&mut t), e));
            }
            for i in 0..shards.min(4) {
                s = s.q(&format!("/* shard_id: {} */ SELECT 1 /*{} expect={}*/", i, next(&mut t), i));
            }
        }
        "literal" => {
            for k in keys {
                let e = expected(k, shards, sha1);
                s = s.q(&format!("SELECT * FROM data WHERE id = {} /*{} expect={}*/", k, next(&mut t), e));
            }
            let e = expected(77, shards, sha1);
            s = s.q(&format!("INSERT INTO data (id, v) VALUES (77, 'x') /*{} expect={}*/", next(&mut t), e));
            s = s.q(&format!("UPDATE data SET v = 'y' WHERE id = 77 /*{} expect={}*/", next(&mut t), e));
            s = s.q(&format!("DELETE FROM data WHERE id = 77 /*{} expect={}*/", next(&mut t), e));
        }
        "bind" => {
            for (i, k) in keys.iter().enumerate() {
                let e = expected(*k, shards, sha1);
                let tg = next(&mut t);
                let (sql, params, fmts): (String, Vec<Option<Vec<u8>>>, Vec<i16>) = match i % 3 {
                    0 => (format!("SELECT * FROM data WHERE id = $1 /*{} expect={}*/", tg, e), vec![Some(k.to_string().into_bytes())], vec![]),
                    1 => (
                        format!("SELECT * FROM data WHERE v > $1 AND id = $2 /*{} expect={}*/", tg, e),
                        vec![Some(b"abc".to_vec()), Some(k.to_be_bytes().to_vec())],
                        vec![0, 1],
                    ),
                    _ => (
                        format!("SELECT * FROM data WHERE v > $1 AND w > $2 AND id = $3 /*{} expect={}*/", tg, e),
                        vec![None, Some(b"zz".to_vec()), Some(k.to_string().into_bytes())],
                        vec![],
                    ),
                };
                let mut b = wire::parse("", &sql, &[]);
                b.extend(wire::bind("", "", &fmts, &params, &[]));
                b.extend(wire::execute("", 0));
                b.extend(wire::sync());
                s = s.send_z(b, &format!("P B E S key={}", k));
            }
        }
        "batch-second" => {
            // pipelined batches: the statement that carries the key is not the first Parse of its batch
            // (a key-less statement comes first); the batch runs on one server, the key's shard
            for (i, k) in keys.iter().enumerate() {
                let e = expected(*k, shards, sha1);
                let mut b = wire::parse("", &format!("SELECT 'nokey' /*{}*/", next(&mut t)), &[]);
                b.extend(wire::bind("", "", &[], &[], &[]));
                b.extend(wire::execute("", 0));
                let tg = next(&mut t);
                let second = match i % 3 {
                    0 => format!("/* sharding_key: {} */ INSERT INTO notes VALUES (1) /*{} expect={}*/", k, tg, e),
                    1 => format!("SELECT * FROM data WHERE id = {} /*{} expect={}*/", k, tg, e),
                    _ => format!("/* shard_id: {} */ SELECT 2 /*{} expect={}*/", e, tg, e),
                };
                b.extend(wire::parse("", &second, &[]));
                b.extend(wire::bind("", "", &[], &[], &[]));
                b.extend(wire::execute("", 0));
                b.extend(wire::sync());
                s = s.send_z(b, &format!("P B E P(key {}) B E S", k));
                // the selection persists
                s = s.q(&sel(&next(&mut t), &e.to_string()));
            }
        }
        _ => panic!("unknown program"),
    }
    s = s.terminate();
    Scenario {
        name: format!("C06 shards={} fn={} prog={}", shards, if sha1 { "sha1" } else { "pg" }, prog),
        toml: cfg.toml(),
        alt_tomls: vec![],
        servers,
        actors: vec![s.actor()],
        opts: Opts::default(),
        meta: serde_json::json!({"shards": shards}),
    }
}

fn shard_of_server(addr: &str) -> Option<usize> {
    // host is pg-s<shard>-<role><idx>
    addr.strip_prefix("pg-s")?.split('-').next()?.parse().ok()
}

pub fn oracle(sc: &Scenario, out: &Outcome) -> Vec<Violation> {
    let log = &out.log;
    let mut vs = Vec::new();
    let shards = sc.meta["shards"].as_u64().unwrap() as usize;
    let prog = sc.name.split_whitespace().find_map(|w| w.strip_prefix("prog=")).unwrap_or("");
    let ctx = format!("prog={}", prog);
    if out.blocked {
        vs.push(v("C06.blocked", format!("C06.blocked:{}", ctx), blocked_note(log).unwrap_or_default()));
    }
    let mut executed = 0;
    for e in log {
        if let Rec::BExec { conn, sql, .. } = &e.rec {
            let exp = match sql.find("expect=") {
                Some(p) => sql[p + 7..].chars().take_while(|c| c.is_ascii_alphanumeric()).collect::<String>(),
                None => continue,
            };
            executed += 1;
            let srv = conn_server(log, *conn);
            let got = shard_of_server(&srv);
            let ok = match (exp.as_str(), got) {
                ("any", Some(g)) => g < shards,
                (e, Some(g)) => e.parse::<usize>().ok() == Some(g),
                _ => false,
            };
            if !ok {
                vs.push(v(
                    "C06.wrong-shard",
                    format!("C06.wrong-shard:{}", ctx),
                    format!("statement `{}` expected on shard {} was executed on server {} (shard {:?})", sql, exp, srv, got),
                ));
            }
        }
    }
    // every expected statement got executed somewhere (none swallowed), except none are expected to fail
    let sent = log
        .iter()
        .filter(|e| matches!(&e.rec, Rec::CSend { bytes, .. } if String::from_utf8_lossy(bytes).contains("expect=")))
        .count();
    if executed != sent && !out.blocked {
        vs.push(v("C06.not-executed", format!("C06.not-executed:{}", ctx), format!("{} statements with an expected shard were sent, {} executed", sent, executed)));
    }
    if prog == "out-of-range" {
        // refused SET SHARD: an ErrorResponse, nothing forwarded, SHOW SHARD keeps the old value
        let msgs = client_msgs(log, 0);
        let errs = msgs.iter().filter(|(_, m)| m.code == b'E').count();
        if errs != 2 {
            vs.push(v("C06.range-not-refused", "C06.range-not-refused".into(), format!("expected 2 refusals for out-of-range SET SHARD, client saw {} errors", errs)));
        }
        let shown: Vec<String> = msgs
            .iter()
            .filter(|(_, m)| m.code == b'D' && m.row_cols().len() == 1)
            .filter_map(|(_, m)| m.row_cols()[0].clone())
            .map(|b| String::from_utf8_lossy(&b).to_string())
            .collect();
        if shown != vec!["1".to_string()] {
            vs.push(v("C06.show-after-refusal", "C06.show-after-refusal".into(), format!("SHOW SHARD after a refused SET SHARD reported {:?}, expected [\"1\"]", shown)));
        }
        for e in log {
            if let Rec::BRecv { msg, .. } = &e.rec {
                if msg.code == b'Q' && msg.text().to_uppercase().contains("SET SHARD") {
                    vs.push(v("C06.command-forwarded", "C06.command-forwarded".into(), format!("a SET SHARD command reached a backend: {}", msg.text())));
                }
            }
        }
    }
    vs
}

pub fn build(tier: &str) -> SimCheck {
    let thorough = tier == "thorough";
    let mut scenarios = Vec::new();
    let counts: Vec<usize> = if thorough { vec![2, 3, 5, 11, 12] } else { vec![3, 11] };
    for n in counts {
        for sha1 in [false, true] {
            for prog in ["set-shard-each", "set-key", "out-of-range", "any", "comment", "literal", "bind", "batch-second"] {
                if sha1 && !thorough && !["set-key", "literal"].contains(&prog) {
                    continue;
                }
                scenarios.push(scenario(n, sha1, prog));
            }
        }
    }
    SimCheck {
        scenarios,
        oracle: Box::new(oracle),
        bound: 0,
        limits: Limits::default(),
        rule: "sim: shard counts {3,11} (thorough {2,3,5,11,12}) x both sharding functions x 8 routing programs (pipelined batches whose second Parse carries the key as a comment / literal / shard id, SET SHARD to every shard with persistence, SET SHARDING KEY, out-of-range SET SHARD, ANY, comment regexes, literals in SELECT/INSERT/UPDATE/DELETE, Bind with the key in $1/$2/$3) on the real pooler with one labelled backend per shard server".into(),
        assumptions: vec!["expected shard computed by the independent PostgreSQL hash reference".into()],
    }
}
