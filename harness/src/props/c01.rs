//! C01 — a server connection serves one client at a time, for a whole transaction.

use super::common::*;
use super::SimCheck;
use crate::cfg::{Cfg, PoolCfg, Script};
use crate::explore::{Limits, Violation};
use crate::mockpg::{Gate, Rec};
use crate::wire;
use crate::world::{Cond, Opts, Outcome, Scenario};
use std::collections::{BTreeMap, BTreeSet};

pub const PROGRAMS: &[&str] = &["auto", "txn", "failtxn", "exttxn", "batch2", "pipelined", "copyin", "copyout", "copyfail", "copyout-srvfail", "copyin-srvfail", "bigrow", "copyin-then-batch", "ext-copyin"];
/// used only with a one-entry statement cache (several evictions in one batch)
pub const CACHED_ONLY: &[&str] = &["prep3"];

fn ext(tagstr: &str, sql: &str) -> Vec<u8> {
    let mut b = wire::parse("", &format!("{} /*{}*/", sql, tagstr), &[]);
    b.extend(wire::bind("", "", &[], &[Some(tagstr.as_bytes().to_vec())], &[]));
    b.extend(wire::execute("", 0));
    b
}

/// Client program `prog` for client actor index `c`.
pub fn program(c: usize, prog: &str, user: &str, db: &str, pw: &str) -> Script {
    let t = |j: usize, k: usize| tag(c, j, k);
    let mut s = Script::new(&format!("c{}", c)).connect(user, db, Some(pw));
    match prog {
        "auto" => {
            s = s.q(&format!("SELECT 1 /*{}*/", t(0, 0))).q(&format!("SELECT 2 /*{}*/", t(1, 0)));
        }
        "txn" => {
            s = s
                .q(&format!("BEGIN /*{}*/", t(0, 0)))
                .q(&format!("SELECT 1 /*{}*/", t(0, 1)))
                .q(&format!("SELECT 2 /*{}*/", t(0, 2)))
                .q(&format!("COMMIT /*{}*/", t(0, 3)));
        }
        "failtxn" => {
            s = s
                .q(&format!("BEGIN /*{}*/", t(0, 0)))
                .q(&format!("SELECT ERR! /*{}*/", t(0, 1)))
                .q(&format!("SELECT 2 /*{}*/", t(0, 2)))
                .q(&format!("ROLLBACK /*{}*/", t(0, 3)))
                .q(&format!("SELECT 3 /*{}*/", t(1, 0)));
        }
        "exttxn" => {
            let mut b1 = ext(&t(0, 1), "SELECT 1");
            b1.extend(wire::sync());
            let mut b2 = ext(&t(0, 2), "SELECT 2");
            b2.extend(wire::sync());
            s = s
                .q(&format!("BEGIN /*{}*/", t(0, 0)))
                .send_z(b1, "P B E S")
                .send_z(b2, "P B E S")
                .q(&format!("COMMIT /*{}*/", t(0, 3)));
        }
        "batch2" => {
            let mut b = ext(&t(0, 0), "SELECT 1");
            b.extend(ext(&t(0, 1), "SELECT 2"));
            b.extend(wire::sync());
            s = s.send_z(b, "P B E P B E S").q(&format!("SELECT 3 /*{}*/", t(1, 0)));
        }
        "pipelined" => {
            let mut b1 = ext(&t(0, 0), "SELECT 1");
            b1.extend(wire::sync());
            let mut b2 = ext(&t(1, 0), "SELECT 2");
            b2.extend(wire::sync());
            s = s.send(b1, "P B E S (no wait)").send(b2, "P B E S (no wait)");
            s.z += 2;
            s = s.wait_z();
        }
        "copyin" => {
            s = s
                .send(wire::query(&format!("COPY t FROM STDIN /*{}*/", t(0, 0))), "Q COPY FROM STDIN")
                .wait(Cond::CodeOrClosed(b'G', 1))
                .send(wire::copy_data(format!("row1 {}\n", t(0, 1)).as_bytes()), "d")
                .send(wire::copy_data(format!("row2 {}\n", t(0, 2)).as_bytes()), "d")
                .send_z(wire::copy_done(), "c")
                .q(&format!("SELECT 3 /*{}*/", t(1, 0)));
        }
        "copyout" => {
            s = s.q(&format!("COPY t TO STDOUT /*{} rows=3*/", t(0, 0))).q(&format!("SELECT 3 /*{}*/", t(1, 0)));
        }
        "copyout-srvfail" => {
            // the server aborts COPY OUT mid-stream with an ErrorResponse
            s = s.q(&format!("COPY t TO STDOUT /*{} failmid*/", t(0, 0))).q(&format!("SELECT 3 /*{}*/", t(1, 0))).q(&format!("SELECT ERR! /*{}*/", t(2, 0))).q(&format!("SELECT 4 /*{}*/", t(3, 0)));
        }
        "copyin-srvfail" => {
            // the server rejects COPY IN at CopyDone
            s = s
                .send(wire::query(&format!("COPY t FROM STDIN /*{} failatdone*/", t(0, 0))), "Q COPY FROM STDIN")
                .wait(Cond::CodeOrClosed(b'G', 1))
                .send(wire::copy_data(format!("row1 {}\n", t(0, 1)).as_bytes()), "d")
                .send_z(wire::copy_done(), "c")
                .q(&format!("SELECT ERR! /*{}*/", t(1, 0)))
                .q(&format!("SELECT 3 /*{}*/", t(2, 0)));
        }
        "bigrow" => {
            // a reply whose first row alone is larger than the pooler's 8196-byte relay chunk, then several 4 KB rows
            s = s
                .q(&format!("SELECT big /*{} rows=1 size=12000*/", t(0, 0)))
                .q(&format!("SELECT 2 /*{}*/", t(1, 0)))
                .q(&format!("SELECT big /*{} rows=3 size=4000*/", t(2, 0)))
                .q(&format!("SELECT 3 /*{}*/", t(3, 0)));
        }
        "prep3" => {
            // three named statements prepared in one batch: with a one-entry statement cache the batch evicts
            // two statements at once, which the pooler closes on the server by itself afterwards
            let mut b = Vec::new();
            for (k, nm) in ["s1", "s2", "s3"].iter().enumerate() {
                b.extend(wire::parse(nm, &format!("SELECT {} /*{}*/", k, t(0, k)), &[]));
            }
            b.extend(wire::bind("", "s3", &[], &[], &[]));
            b.extend(wire::execute("", 0));
            b.extend(wire::sync());
            s = s.send_z(b, "P(s1) P(s2) P(s3) B(s3) E S").q(&format!("SELECT 3 /*{}*/", t(1, 0))).q(&format!("SELECT 4 /*{}*/", t(2, 0)));
        }
        "ext-copyin" => {
            // COPY IN over the extended protocol (libpq style): the batch's Sync is ignored by the server,
            // the ReadyForQuery comes with the Sync sent after CopyDone
            let mut b = wire::parse("", &format!("COPY t FROM STDIN /*{}*/", t(0, 0)), &[]);
            b.extend(wire::bind("", "", &[], &[], &[]));
            b.extend(wire::execute("", 0));
            b.extend(wire::sync());
            let mut end = wire::copy_done();
            end.extend(wire::sync());
            s = s
                .send(b, "P B E S (COPY)")
                .wait(Cond::CodeOrClosed(b'G', 1))
                .send(wire::copy_data(format!("row1 {}\n", t(0, 1)).as_bytes()), "d")
                .send_z(end, "c S")
                .q(&format!("SELECT 3 /*{}*/", t(1, 0)));
        }
        "copyin-then-batch" => {
            // an extended-protocol batch in the middle of COPY IN: the server aborts the COPY and answers with
            // two ReadyForQuery; whatever the pooler does with that connection, nobody else may get the rest
            let mut b = ext(&t(0, 2), "SELECT 2");
            b.extend(wire::sync());
            s = s
                .send(wire::query(&format!("COPY t FROM STDIN /*{}*/", t(0, 0))), "Q COPY FROM STDIN")
                .wait(Cond::CodeOrClosed(b'G', 1))
                .send(wire::copy_data(format!("row1 {}\n", t(0, 1)).as_bytes()), "d")
                .send_z(b, "P B E S (during COPY)")
                .wait(Cond::TimeMs(0))
                .q(&format!("SELECT 3 /*{}*/", t(1, 0)));
        }
        "copyfail" => {
            s = s
                .send(wire::query(&format!("COPY t FROM STDIN /*{}*/", t(0, 0))), "Q COPY FROM STDIN")
                .wait(Cond::CodeOrClosed(b'G', 1))
                .send(wire::copy_data(format!("row1 {}\n", t(0, 1)).as_bytes()), "d")
                .send_z(wire::copy_fail("nope"), "f")
                .q(&format!("SELECT 3 /*{}*/", t(1, 0)));
        }
        _ => panic!("unknown program {}", prog),
    }
    s.terminate()
}

pub fn scenario(mode: &str, pool_size: u32, progs: &[&str], gate: Gate) -> Scenario {
    scenario_cached(mode, pool_size, progs, gate, 0)
}

/// Same with the statement cache on (extended-protocol batches take the renaming / cache-hit paths).
pub fn scenario_cached(mode: &str, pool_size: u32, progs: &[&str], gate: Gate, cache: usize) -> Scenario {
    let mut pool = PoolCfg::simple("db", mode, pool_size, 1, 0);
    if cache > 0 {
        pool.extra = format!("prepared_statements_cache_size = {}\n", cache);
    }
    let cfg = Cfg::one(pool);
    let mut servers = cfg.servers();
    for s in servers.iter_mut() {
        s.gate = gate.clone();
    }
    let actors = progs.iter().enumerate().map(|(i, p)| program(i, p, "alice", "db", "alicepw").actor()).collect();
    Scenario {
        name: format!("C01 mode={} pool_size={} progs={} gate={:?}{}", mode, pool_size, progs.join("+"), gate, if cache > 0 { " cache=on" } else { "" }),
        toml: cfg.toml(),
        alt_tomls: vec![],
        servers,
        actors,
        opts: Opts::default(),
        meta: serde_json::Value::Null,
    }
}

/// Timeouts: a statement the server answers only after `statement_timeout` has given up on it (the
/// client still there, or already gone), and a transaction left idle past
/// `idle_client_in_transaction_timeout`; other clients run before, during and after.
pub fn timeout_scenario(mode: &str, pool_size: u32, victim: &str) -> Scenario {
    use crate::mockpg::{Fault, FaultKind, Matcher};
    use crate::world::CloseKind;
    let mut pool = PoolCfg::simple("db", mode, pool_size, 1, 0);
    pool.users[0].extra = "statement_timeout = 2000\n".into();
    let mut cfg = Cfg::one(pool);
    cfg.idle_in_txn_timeout = 3000;
    let mut servers = cfg.servers();
    servers[0].faults.push(Fault { on: Matcher::Contains("SLOW!".into()), kind: FaultKind::Delay(3000), once: false });
    let t = |j: usize, k: usize| tag(0, j, k);
    let mut v = Script::new("c0").connect("alice", "db", Some("alicepw")).q(&format!("SELECT 0 /*{}*/", t(0, 0)));
    match victim {
        "slow-drop" => {
            v = v.send(wire::query(&format!("SELECT SLOW! /*{}*/", t(1, 0))), "Q SELECT SLOW!").close(CloseKind::HardDrop);
        }
        "slow-fin" => {
            v = v.send(wire::query(&format!("SELECT SLOW! /*{}*/", t(1, 0))), "Q SELECT SLOW!").close(CloseKind::Fin);
        }
        "slow-stay" => {
            v = v.q(&format!("SELECT SLOW! /*{}*/", t(1, 0))).step(crate::world::Step::Reconnect { user: "alice".into(), db: "db".into(), password: Some("alicepw".into()) }).send(wire::query(&format!("SELECT 2 /*{}*/", t(2, 0))), "Q SELECT 2").wait(Cond::ReplyOrClosed).terminate();
        }
        "slow-in-txn-drop" => {
            v = v.q(&format!("BEGIN /*{}*/", t(1, 0))).send(wire::query(&format!("SELECT SLOW! /*{}*/", t(1, 1))), "Q SELECT SLOW!").close(CloseKind::HardDrop);
        }
        "idle-in-txn" => {
            v = v.q(&format!("BEGIN /*{}*/", t(1, 0))).q(&format!("SELECT 1 /*{}*/", t(1, 1))).wait(Cond::TimeMs(3600)).q(&format!("SELECT 2 /*{}*/", t(2, 0))).terminate();
        }
        _ => panic!("victim"),
    }
    let other = |c: usize, at: u64| -> Script {
        let mut s = Script::new(&format!("c{}", c)).wait(Cond::TimeMs(at)).connect("alice", "db", Some("alicepw"));
        for j in 0..3 {
            s = s.q(&format!("SELECT {} /*{}*/", j, tag(c, j, 0)));
        }
        s.terminate()
    };
    Scenario {
        name: format!("C01 mode={} pool_size={} progs=timeout:{} gate=Off", mode, pool_size, victim),
        toml: cfg.toml(),
        alt_tomls: vec![],
        servers,
        actors: vec![v.actor(), other(1, 0).actor(), other(2, 2500).actor(), other(3, 4000).actor()],
        opts: Opts { horizon_ms: 30_000, ..Opts::default() },
        meta: serde_json::Value::Null,
    }
}

pub fn oracle(sc: &Scenario, out: &Outcome) -> Vec<Violation> {
    let log = &out.log;
    let mut vs = Vec::new();
    let session_mode = sc.name.contains("mode=session");
    let nclients = sc.actors.len();
    // every statement gets its reply: a client left waiting for ever received somebody else's share, or none
    if out.blocked {
        vs.push(v("C01.no-reply", "C01.no-reply".to_string(), format!("a client never received the reply to its statement: {}", blocked_note(log).unwrap_or_default())));
    }

    // (1) exclusivity per backend connection
    for conn in conn_ids(log) {
        let mut owner: Option<usize> = None;
        let mut batch_open = false;
        let mut sess_owner: Option<usize> = None;
        for (seq, msg, st) in brecv_of(log, conn) {
            if is_control(msg) {
                continue;
            }
            let idle_before = st.status == b'I' && !st.in_copy_in && !batch_open;
            if let Some(t) = msg_tag(msg) {
                if !idle_before {
                    if let Some(o) = owner {
                        if o != t.c {
                            vs.push(v(
                                "C01.exclusive",
                                format!("C01.exclusive:{}:status={}:copy={}:batch={}", msg.code as char, st.status as char, st.in_copy_in, batch_open),
                                format!("conn {} received {} of client {} at seq {} while serving client {} (status {}, copy {}, open batch {})", conn, describe(msg), t.c, seq, o, st.status as char, st.in_copy_in, batch_open),
                            ));
                        }
                    }
                }
                if session_mode {
                    if let Some(o) = sess_owner {
                        if o != t.c {
                            let gone = client_gone_seq(log, o).map(|g| g < seq).unwrap_or(false);
                            if !gone {
                                vs.push(v(
                                    "C01.session",
                                    format!("C01.session:{}", msg.code as char),
                                    format!("session mode: conn {} received {} of client {} at seq {} while client {} still connected", conn, describe(msg), t.c, seq, o),
                                ));
                            }
                        }
                    }
                    sess_owner = Some(t.c);
                }
                owner = Some(t.c);
            }
            match msg.code {
                b'P' | b'B' | b'D' | b'E' | b'C' | b'H' if !st.in_copy_in => batch_open = true,
                b'S' | b'Q' => batch_open = false,
                _ => {}
            }
        }
    }

    // (2) one transaction (one session in session mode) -> one connection
    let mut where_: BTreeMap<(usize, usize), BTreeSet<usize>> = BTreeMap::new();
    for e in log {
        if let Rec::BRecv { conn, msg, .. } = &e.rec {
            if is_control(msg) {
                continue;
            }
            if let Some(t) = msg_tag(msg) {
                let key = if session_mode { (t.c, 0) } else { (t.c, t.t) };
                where_.entry(key).or_default().insert(*conn);
            }
        }
    }
    for ((c, t), conns) in &where_ {
        if conns.len() > 1 {
            vs.push(v(
                "C01.same-conn",
                format!("C01.same-conn:session={}", session_mode),
                format!("client {} transaction {} was spread over backend connections {:?}", c, t, conns),
            ));
        }
    }

    // (3) every result a client receives is its own, from the connection that ran it
    let mut exec_at: BTreeMap<String, Vec<usize>> = BTreeMap::new();
    for e in log {
        if let Rec::BExec { conn, sql, .. } = &e.rec {
            exec_at.entry(sql.clone()).or_default().push(*conn);
        }
    }
    for c in 0..nclients {
        let mut last: Option<Tag> = None;
        for (seq, m) in client_msgs(log, c) {
            let t = match msg_tag(m) {
                Some(t) => t,
                None => continue,
            };
            if t.c != c {
                vs.push(v(
                    "C01.foreign-result",
                    format!("C01.foreign-result:{}", m.code as char),
                    format!("client {} received at seq {} a message carrying client {}'s tag: {}", c, seq, t.c, describe(m)),
                ));
                continue;
            }
            if m.code == b'D' {
                let cols = m.row_cols();
                if cols.len() >= 3 {
                    let conn_s = String::from_utf8_lossy(cols[0].as_deref().unwrap_or(b"")).to_string();
                    let sql = String::from_utf8_lossy(cols[2].as_deref().unwrap_or(b"")).to_string();
                    let k: Option<usize> = conn_s.strip_prefix("conn=").and_then(|x| x.parse().ok());
                    let ok = match (k, exec_at.get(&sql)) {
                        (Some(k), Some(cs)) => cs.contains(&k),
                        _ => false,
                    };
                    if !ok {
                        vs.push(v(
                            "C01.result-origin",
                            "C01.result-origin".to_string(),
                            format!("client {} got row {} that no backend connection produced for that statement", c, describe(m)),
                        ));
                    }
                }
                if let Some(l) = last {
                    if (t.t, t.s) < (l.t, l.s) {
                        vs.push(v(
                            "C01.result-order",
                            "C01.result-order".to_string(),
                            format!("client {} received result of {:?} after result of {:?}", c, t, l),
                        ));
                    }
                }
                last = Some(t);
            }
        }
    }

    // (4) each executed client statement ran exactly once (no duplication by the pooler)
    let mut count: BTreeMap<String, usize> = BTreeMap::new();
    for e in log {
        if let Rec::BExec { sql, .. } = &e.rec {
            if find_tag(sql.as_bytes()).is_some() {
                *count.entry(sql.clone()).or_insert(0) += 1;
            }
        }
    }
    for (sql, n) in count {
        if n > 1 {
            vs.push(v("C01.duplicate", "C01.duplicate".to_string(), format!("statement {:?} executed {} times", sql, n)));
        }
    }
    vs
}

pub fn build(tier: &str) -> SimCheck {
    let mut scenarios = Vec::new();
    let thorough = tier == "thorough";
    let modes = ["transaction", "session"];
    for mode in modes {
        for pool_size in [1u32, 2] {
            // every program against the multi-statement transaction and against itself
            for p in PROGRAMS {
                let others: Vec<&str> = PROGRAMS.to_vec();
                for o in others {
                    scenarios.push(scenario(mode, pool_size, &[p, o], Gate::PerReply));
                    let ext = |x: &str| ["exttxn", "batch2", "pipelined"].contains(&x);
                    if ext(p) && (ext(o) || o == "txn") {
                        scenarios.push(scenario_cached(mode, pool_size, &[p, o], Gate::PerReply, 8));
                    }
                }
            }
            // a one-entry statement cache: one batch evicts several statements
            for o in ["auto", "txn", "prep3"] {
                scenarios.push(scenario_cached(mode, pool_size, &["prep3", o], Gate::PerReply, 1));
            }
            // three clients
            let triples: Vec<[&str; 3]> = if thorough {
                vec![["txn", "exttxn", "copyin"], ["failtxn", "batch2", "auto"], ["pipelined", "copyout", "txn"], ["copyfail", "txn", "exttxn"]]
            } else {
                vec![["txn", "exttxn", "copyin"]]
            };
            for t in triples {
                scenarios.push(scenario(mode, pool_size, &t, Gate::PerReply));
            }
        }
    }
    // (transaction mode: a pooler timeout ends the session's hold on its server, which the
    // session-mode monitor would read as a hand-over inside a session)
    for pool_size in [1u32, 2] {
        for victim in ["slow-drop", "slow-fin", "slow-stay", "slow-in-txn-drop", "idle-in-txn"] {
            scenarios.push(timeout_scenario("transaction", pool_size, victim));
        }
    }
    SimCheck {
        scenarios,
        oracle: Box::new(oracle),
        bound: if thorough { 3 } else { 2 },
        limits: Limits { max_wall_s: if thorough { 2400.0 } else { 150.0 }, ..Default::default() },
        rule: "scenario = pool mode x pool_size x tuple of client programs (simple, multi-statement, failed, extended, pipelined, COPY in/out/fail transactions, replies with rows larger than the relay chunk; extended-protocol pairs also with the statement cache on), plus timeout scenarios (statement answered after statement_timeout with the client present / dropped / FIN / inside a transaction, idle-in-transaction timeout) next to three other clients; every schedule of client sends, backend reply deliveries and checkouts with at most `bound` deviations from run-to-completion order; distinct = distinct observable end-to-end histories".into(),
        assumptions: vec![
            "reference backend (mockpg) is the trusted model of a PostgreSQL session".into(),
            "single-threaded runtime: interleavings at await-point granularity".into(),
            "bb8's own exclusivity of a checked-out connection is exercised, not re-verified at thread level".into(),
        ],
    }
}
