//! C08 — prepared-statement caching is invisible to clients.

use super::c03::compare_with_reference;
use super::common::*;
use super::SimCheck;
use crate::cfg::{Cfg, PoolCfg, Script};
use crate::explore::{Limits, Violation};
use crate::mockpg::Rec;
use crate::wire;
use crate::world::{Opts, Outcome, Scenario};
use std::collections::BTreeSet;

fn p(name: &str, sql: &str, types: &[i32]) -> Vec<u8> {
    wire::parse(name, sql, types)
}
fn be(name: &str, param: &str) -> Vec<u8> {
    let mut b = wire::bind("", name, &[], &[Some(param.as_bytes().to_vec())], &[]);
    b.extend(wire::execute("", 0));
    b
}
fn sync(mut b: Vec<u8>) -> Vec<u8> {
    b.extend(wire::sync());
    b
}

pub const PROGRAMS: &[&str] = &[
    "prepare-then-bind", "two-names", "describe", "close-reparse", "two-binds-one-batch", "lru-order", "collide-a", "collide-b", "same-text-other-types", "parse-bind-same-batch", "case-variant", "error-parse", "error-parse-twice", "error-then-parse-one-batch", "three-parses-one-batch", "ext-copy-evicts", "bind-close-reparse-one-batch", "sql-prepare-between", "sql-prepare-only",
];

/// Program for client `c`. Texts carry the client's tag so that results are attributable.
pub fn program(c: usize, prog: &str) -> Script {
    let t = |j: usize| tag(c, j, 0);
    let mut s = Script::new(&format!("c{}", c)).connect("alice", "db", Some("alicepw"));
    let t1 = format!("SELECT 'T1' /*by c{}*/", c);
    let t2 = format!("SELECT 'T2' /*by c{}*/", c);
    let t3 = format!("SELECT 'T3' /*by c{}*/", c);
    match prog {
        "prepare-then-bind" => {
            s = s.send_z(sync(p("a", &t1, &[])), "P(a,T1) S");
            s = s.send_z(sync(be("a", &t(1))), "B(a) E S");
            s = s.send_z(sync(be("a", &t(2))), "B(a) E S");
        }
        "two-names" => {
            let mut b = p("a", &t1, &[]);
            b.extend(be("a", &t(1)));
            s = s.send_z(sync(b), "P(a,T1) B E S");
            let mut b = p("b", &t2, &[]);
            b.extend(be("b", &t(2)));
            s = s.send_z(sync(b), "P(b,T2) B E S");
            s = s.send_z(sync(be("a", &t(3))), "B(a) E S");
            s = s.send_z(sync(be("b", &t(4))), "B(b) E S");
        }
        "describe" => {
            let mut b = p("a", &t1, &[23, 25]);
            b.extend(wire::describe(b'S', "a"));
            s = s.send_z(sync(b), "P(a,T1,[23,25]) D(S a) S");
            s = s.send_z(sync(wire::describe(b'S', "a")), "D(S a) S");
            let mut b = wire::bind("pp", "a", &[], &[Some(t(2).into_bytes())], &[]);
            b.extend(wire::describe(b'P', "pp"));
            b.extend(wire::execute("pp", 0));
            s = s.send_z(sync(b), "B(pp,a) D(P pp) E S");
        }
        "close-reparse" => {
            let mut b = p("a", &t1, &[]);
            b.extend(be("a", &t(1)));
            s = s.send_z(sync(b), "P(a,T1) B E S");
            s = s.send_z(sync(wire::close(b'S', "a")), "C(S a) S");
            let mut b = p("a", &t2, &[]);
            b.extend(be("a", &t(2)));
            s = s.send_z(sync(b), "P(a,T2) B E S");
            s = s.send_z(sync(be("a", &t(3))), "B(a) E S");
        }
        "two-binds-one-batch" => {
            s = s.send_z(sync(p("a", &t1, &[])), "P(a,T1) S");
            s = s.send_z(sync(p("b", &t2, &[])), "P(b,T2) S");
            let mut b = be("a", &t(1));
            b.extend(be("b", &t(2)));
            s = s.send_z(sync(b), "B(a) E B(b) E S");
            let mut b = be("b", &t(3));
            b.extend(be("a", &t(4)));
            s = s.send_z(sync(b), "B(b) E B(a) E S");
        }
        "lru-order" => {
            s = s.send_z(sync(p("s1", &t1, &[])), "P(s1) S");
            s = s.send_z(sync(p("s2", &t2, &[])), "P(s2) S");
            s = s.send_z(sync(p("s3", &t3, &[])), "P(s3) S");
            let mut b = be("s2", &t(1));
            b.extend(be("s1", &t(2)));
            s = s.send_z(sync(b), "B(s2) E B(s1) E S");
            let mut b = be("s3", &t(3));
            b.extend(be("s2", &t(4)));
            s = s.send_z(sync(b), "B(s3) E B(s2) E S");
        }
        // two statements whose (text, parameter count, types) encodings are close: structural collision candidates
        "collide-a" => {
            let mut b = p("a", "SELECT 1 + 1", &[0]);
            b.extend(be("a", &t(1)));
            s = s.send_z(sync(b), "P(a,'SELECT 1 + 1',[0]) B E S");
            s = s.send_z(sync(be("a", &t(2))), "B(a) E S");
        }
        "collide-b" => {
            let mut b = p("a", "SELECT 1 + 11", &[]);
            b.extend(be("a", &t(1)));
            s = s.send_z(sync(b), "P(a,'SELECT 1 + 11',[]) B E S");
            s = s.send_z(sync(be("a", &t(2))), "B(a) E S");
        }
        "same-text-other-types" => {
            let mut b = p("a", "SELECT 'shared text'", &[23]);
            b.extend(wire::describe(b'S', "a"));
            s = s.send_z(sync(b), "P(a,shared,[23]) D S");
            let mut b = p("b", "SELECT 'shared text'", &[25]);
            b.extend(wire::describe(b'S', "b"));
            s = s.send_z(sync(b), "P(b,shared,[25]) D S");
            s = s.send_z(sync(wire::describe(b'S', "a")), "D(S a) S");
        }
        "parse-bind-same-batch" => {
            let mut b = p("a", &t1, &[]);
            b.extend(be("a", &t(1)));
            b.extend(p("b", &t2, &[]));
            b.extend(be("b", &t(2)));
            s = s.send_z(sync(b), "P(a) B E P(b) B E S");
            let mut b = be("b", &t(3));
            b.extend(be("a", &t(4)));
            s = s.send_z(sync(b), "B(b) E B(a) E S");
        }
        "case-variant" => {
            let mut b = p("a", "select 'case'", &[]);
            b.extend(be("a", &t(1)));
            s = s.send_z(sync(b), "P(a,lower) B E S");
            let mut b = p("b", "SELECT 'case'", &[]);
            b.extend(be("b", &t(2)));
            s = s.send_z(sync(b), "P(b,UPPER) B E S");
            s = s.send_z(sync(be("a", &t(3))), "B(a) E S");
        }
        "error-parse" => {
            // a statement the server rejects must not poison the name for later use
            s = s.send_z(sync(p("a", "SELECT ERR!PARSE", &[])), "P(a, bad) S");
            let mut b = p("a", &t1, &[]);
            b.extend(be("a", &t(1)));
            s = s.send_z(sync(b), "P(a,T1) B E S");
            s = s.send_z(sync(be("a", &t(2))), "B(a) E S");
        }
        "bind-close-reparse-one-batch" => {
            // a name is used, closed and given to another (already known) text within one batch: the Bind
            // is for the statement the name stood for when it was sent, also on a server that lacks it
            s = s.send_z(sync(p("a", &t1, &[])), "P(a,T1) S");
            s = s.send_z(sync(p("b", &t2, &[])), "P(b,T2) S");
            let mut b = be("a", &t(1));
            b.extend(wire::close(b'S', "a"));
            b.extend(p("a", &t2, &[]));
            s = s.send_z(sync(b), "B(a) E C(S,a) P(a,T2) S");
            s = s.send_z(sync(be("a", &t(2))), "B(a) E S");
            s = s.send_z(sync(be("b", &t(3))), "B(b) E S");
        }
        // (see reload_scenario: actor 2 reloads once client 0 has prepared and used a)
        "reload-a" => {
            s = s.send_z(sync(p("a", &t1, &[])), "P(a,T1) S");
            s = s.wait(crate::world::Cond::ActorsDone(vec![1, 2]));
            s = s.send_z(sync(be("a", &t(1))), "B(a) E S");
            let mut b = p("b", &t2, &[]);
            b.extend(be("b", &t(2)));
            s = s.send_z(sync(b), "P(b,T2) B E S");
            s = s.send_z(sync(be("a", &t(3))), "B(a) E S");
        }
        "reload-b" => {
            s = s.wait(crate::world::Cond::ActorsDone(vec![2]));
            let mut b = p("a", &t2, &[]);
            b.extend(be("a", &t(1)));
            s = s.send_z(sync(b), "P(a,T2) B E S");
            s = s.send_z(sync(be("a", &t(2))), "B(a) E S");
        }
        "three-parses-one-batch" => {
            // three new statements in one batch: with a small cache one batch evicts more than one statement
            let mut b = p("a", &t1, &[]);
            b.extend(p("b", &t2, &[]));
            b.extend(p("c", &t3, &[]));
            b.extend(be("c", &t(1)));
            s = s.send_z(sync(b), "P(a,T1) P(b,T2) P(c,T3) B(c) E S");
            s = s.q(&format!("SELECT 'plain' /*{}*/", t(2)));
            s = s.send_z(sync(be("a", &t(3))), "B(a) E S");
            s = s.send_z(sync(be("b", &t(4))), "B(b) E S");
        }
        "ext-copy-evicts" => {
            // a COPY FROM STDIN prepared and run over the extended protocol evicts a cached statement while
            // the server is in COPY mode: it is closed when the COPY is over, and a is re-prepared on demand
            s = s.send_z(sync(p("a", &t1, &[])), "P(a,T1) S");
            let mut b = p("c", &format!("COPY t FROM STDIN /*by c{}*/", c), &[]);
            b.extend(wire::bind("", "c", &[], &[], &[]));
            b.extend(wire::execute("", 0));
            b.extend(wire::sync());
            let mut end = wire::copy_done();
            end.extend(wire::sync());
            s = s.send(b, "P(c,COPY) B E S").wait(crate::world::Cond::CodeOrClosed(b'G', 1)).send(wire::copy_data(b"1\n"), "d").send_z(end, "c S");
            s = s.send_z(sync(be("a", &t(1))), "B(a) E S");
            s = s.send_z(sync(be("a", &t(2))), "B(a) E S");
        }
        "error-then-parse-one-batch" => {
            // a rejected Parse and a good one in one batch: the server skips the second (it discards everything up
            // to the Sync), so b is not prepared anywhere; preparing it again afterwards must work
            let mut b = p("a", "SELECT ERR!PARSE", &[]);
            b.extend(p("b", &t2, &[]));
            s = s.send_z(sync(b), "P(a, bad) P(b,T2) S");
            let mut b = p("b", &t2, &[]);
            b.extend(be("b", &t(1)));
            s = s.send_z(sync(b), "P(b,T2) B E S");
            s = s.send_z(sync(be("b", &t(2))), "B(b) E S");
        }
        "error-parse-twice" => {
            // the same rejected text again: it was never prepared, so it must be sent (and rejected) again,
            // under the same name and under another one
            s = s.send_z(sync(p("a", "SELECT ERR!PARSE", &[])), "P(a, bad) S");
            let mut b = p("a", "SELECT ERR!PARSE", &[]);
            b.extend(be("a", &t(1)));
            s = s.send_z(sync(b), "P(a, bad) B E S");
            let mut b = p("b", "SELECT ERR!PARSE", &[]);
            b.extend(be("b", &t(2)));
            s = s.send_z(sync(b), "P(b, bad) B E S");
            let mut b = p("a", &t1, &[]);
            b.extend(be("a", &t(3)));
            s = s.send_z(sync(b), "P(a,T1) B E S");
        }
        "sql-prepare-between" => {
            // a simple-protocol PREPARE makes the pooler run DEALLOCATE ALL when the server goes back to
            // the pool: the client's protocol-level statements must survive that (re-prepared on demand)
            s = s.send_z(sync(p("a", &t1, &[])), "P(a,T1) S");
            s = s.send_z(sync(be("a", &t(1))), "B(a) E S");
            s = s.q(&format!("PREPARE sqlstmt{} AS SELECT 1", c));
            s = s.send_z(sync(be("a", &t(2))), "B(a) E S");
            let mut b = wire::describe(b'S', "a");
            b.extend(be("a", &t(3)));
            s = s.send_z(sync(b), "D(S a) B(a) E S");
        }
        "sql-prepare-only" => {
            s = s.q(&format!("PREPARE sqlstmt{} AS SELECT 1", c)).q(&format!("SELECT 'plain' /*{}*/", t(1)));
        }
        g if g.starts_with("gen:") => {
            for (bytes, label) in gen_batches(c, g) {
                s = s.send_z(bytes, &label);
            }
        }
        _ => panic!("unknown program {}", prog),
    }
    s.terminate()
}

/// Generated programs `gen:<prefix>:<i.j.k>:<suffix>`: a prefix of preparatory batches, one batch made
/// of up to three items of the alphabet below, and a probe batch.
pub const GEN_ITEMS: &[&str] = &["P(a,T1)", "P(a,T2)", "P(b,T2)", "B(a)E", "B(b)E", "D(S,a)", "C(S,a)", "C(S,b)", "P(,T3)B()E", "C(P,)", "B(a<-a)E(a)", "C(P,a)"];

fn gen_item(c: usize, i: usize, n: &mut usize) -> Vec<u8> {
    let t1 = format!("SELECT 'T1' /*by c{}*/", c);
    let t2 = format!("SELECT 'T2' /*by c{}*/", c);
    let t3 = format!("SELECT 'T3' /*by c{}*/", c);
    *n += 1;
    let tg = tag(c, *n, 0);
    match i {
        0 => p("a", &t1, &[]),
        1 => p("a", &t2, &[]),
        2 => p("b", &t2, &[]),
        3 => be("a", &tg),
        4 => be("b", &tg),
        5 => wire::describe(b'S', "a"),
        6 => wire::close(b'S', "a"),
        7 => wire::close(b'S', "b"),
        8 => {
            let mut b = p("", &t3, &[]);
            b.extend(be("", &tg));
            b
        }
        // portals: close the unnamed portal; a portal named like the statement it is bound to; close it
        9 => wire::close(b'P', ""),
        10 => {
            let mut b = wire::bind("a", "a", &[], &[Some(tg.as_bytes().to_vec())], &[]);
            b.extend(wire::execute("a", 0));
            b
        }
        11 => wire::close(b'P', "a"),
        _ => panic!("gen item"),
    }
}

pub fn gen_batches(c: usize, name: &str) -> Vec<(Vec<u8>, String)> {
    let parts: Vec<&str> = name.split(':').collect();
    let (prefix, items, suffix) = (parts[1], parts[2], parts[3]);
    let mut n = 0usize;
    let mut out = Vec::new();
    if prefix.contains('a') {
        out.push((sync(gen_item(c, 0, &mut n)), "P(a,T1) S".to_string()));
    }
    if prefix.contains('b') {
        out.push((sync(gen_item(c, 2, &mut n)), "P(b,T2) S".to_string()));
    }
    let idx: Vec<usize> = items.split('.').filter(|x| !x.is_empty()).map(|x| x.parse().unwrap()).collect();
    let mut b = Vec::new();
    for i in &idx {
        b.extend(gen_item(c, *i, &mut n));
    }
    out.push((sync(b), format!("{} S", idx.iter().map(|i| GEN_ITEMS[*i]).collect::<Vec<_>>().join(" "))));
    match suffix {
        "a" => out.push((sync(gen_item(c, 3, &mut n)), "B(a)E S".to_string())),
        "b" => out.push((sync(gen_item(c, 4, &mut n)), "B(b)E S".to_string())),
        _ => {}
    }
    out
}

/// Distinct statement names the generated batch refers to (the recorded cache-size-1 defect needs two).
fn gen_class(name: &str) -> &'static str {
    let items = name.split(':').nth(2).unwrap_or("");
    let idx: Vec<usize> = items.split('.').filter(|x| !x.is_empty()).map(|x| x.parse().unwrap()).collect();
    let uses_a = idx.iter().any(|i| [0, 1, 3, 5, 6, 10].contains(i));
    let uses_b = idx.iter().any(|i| [2, 4, 7].contains(i));
    let uses_u = idx.iter().any(|i| *i == 8);
    if [uses_a, uses_b, uses_u].iter().filter(|x| **x).count() >= 2 {
        "gen-multi-name-batch"
    } else {
        "gen-single-name-batch"
    }
}

/// All generated programs that are valid on a direct connection (no ErrorResponse in the reference).
pub fn gen_programs(maxlen: usize) -> Vec<String> {
    let mut seqs: Vec<Vec<usize>> = vec![vec![]];
    let mut all: Vec<Vec<usize>> = Vec::new();
    for _ in 0..maxlen {
        let mut next = Vec::new();
        for sq in &seqs {
            for i in 0..GEN_ITEMS.len() {
                let mut t = sq.clone();
                t.push(i);
                next.push(t);
            }
        }
        all.extend(next.iter().cloned());
        seqs = next;
    }
    let mut out = Vec::new();
    for prefix in ["-", "a", "ab"] {
        for sq in &all {
            for suffix in ["-", "a", "b"] {
                let name = format!("gen:{}:{}:{}", prefix, sq.iter().map(|i| i.to_string()).collect::<Vec<_>>().join("."), suffix);
                // valid on a direct connection?
                let mut bytes = Vec::new();
                for (b, _) in gen_batches(0, &name) {
                    bytes.extend(b);
                }
                let msgs = wire::split_stream(&bytes).0;
                let reply = crate::mockpg::reference_replies(&msgs, "pgcat");
                if reply.iter().any(|m| m.code == b'E') {
                    continue;
                }
                out.push(name);
            }
        }
    }
    out
}

pub fn scenario(cache: usize, pool_size: u32, progs: &[&str]) -> Scenario {
    let mut pool = PoolCfg::simple("db", "transaction", pool_size, 1, 0);
    pool.extra = format!("prepared_statements_cache_size = {}\n", cache);
    let cfg = Cfg::one(pool);
    let servers = cfg.servers();
    let actors = progs.iter().enumerate().map(|(i, pr)| program(i, pr).actor()).collect();
    Scenario {
        name: format!("C08 cache={} pool_size={} progs={}", cache, pool_size, progs.join("+")),
        toml: cfg.toml(),
        alt_tomls: vec![],
        servers,
        actors,
        opts: Opts::default(),
        meta: serde_json::json!({"cache": cache}),
    }
}

/// A RELOAD that rebuilds the pool (its idle_timeout changes) lands between the uses of a name: client 0
/// prepared a=T1 before it and binds it afterwards, client 1 prepares the same name with another text after
/// the reload. The new pool starts with a statement cache of its own.
pub fn reload_scenario(cache: usize, pool_size: u32) -> Scenario {
    let mut sc = scenario(cache, pool_size, &["reload-a", "reload-b"]);
    sc.alt_tomls = vec![sc.toml.replacen("prepared_statements_cache_size", "idle_timeout = 40000\nprepared_statements_cache_size", 1)];
    assert!(sc.alt_tomls[0].contains("idle_timeout = 40000"));
    let at = sc.actors[0].steps.iter().position(|x| matches!(x, crate::world::Step::Wait(crate::world::Cond::ActorsDone(_)))).unwrap();
    sc.actors.push(crate::cfg::env(
        "reload",
        vec![crate::world::Step::Wait(crate::world::Cond::ActorAt(0, at)), crate::world::Step::WriteConfig(0), crate::world::Step::Admin("RELOAD".into())],
    ));
    sc.name = format!("{} reload=pool-rebuilt", sc.name);
    sc
}

pub fn oracle(sc: &Scenario, out: &Outcome) -> Vec<Violation> {
    let log = &out.log;
    let mut vs = Vec::new();
    let progs = sc.name.split_whitespace().find_map(|w| w.strip_prefix("progs=")).unwrap_or("").to_string();
    let cache = sc.meta["cache"].as_u64().unwrap() as usize;
    let ctx = format!("progs={}:cache={}", progs, cache);
    if out.blocked {
        vs.push(v("C08.blocked", format!("C08.blocked:{}", ctx), blocked_note(log).unwrap_or_default()));
        return vs;
    }
    // (1) every client sees exactly what a direct connection would show
    for c in 0..sc.actors.len() {
        let prog = progs.split('+').nth(c).unwrap_or("");
        let label = if prog.starts_with("gen:") { gen_class(prog) } else { prog };
        vs.extend(compare_with_reference(log, c, true, "C08.visible", &format!("prog={}:cache={}", label, cache)));
    }
    // (2) evicted statements are closed on the server: while a batch is being prepared the server may hold
    // the statements the batch itself uses on top of the configured size (the pooler closes evicted ones
    // once the batch is through), never more; and whatever a connection holds after its last message is
    // within the configured size
    let mut batch_max = 1usize;
    for e in log {
        if let Rec::CSend { bytes, .. } = &e.rec {
            let (msgs, _, _) = wire::split_stream(bytes);
            batch_max = batch_max.max(msgs.iter().filter(|m| matches!(m.code, b'P' | b'B' | b'D')).count());
        }
    }
    let prog_label = if progs.starts_with("gen:") { gen_class(&progs).to_string() } else { progs.clone() };
    let mut last: std::collections::BTreeMap<usize, usize> = std::collections::BTreeMap::new();
    let mut reported = false;
    for e in log {
        if let Rec::BRecv { conn, st, .. } = &e.rec {
            let n = st.stmts.keys().filter(|k| k.starts_with("PGCAT_")).count();
            last.insert(*conn, n);
            if n > cache + batch_max && !reported {
                reported = true;
                vs.push(v(
                    "C08.server-cache-size",
                    format!("C08.server-cache-size:cache={}:progs={}", cache, prog_label),
                    format!("backend conn {} holds {} pooler statements with prepared_statements_cache_size = {} (largest client batch uses {})", conn, n, cache, batch_max),
                ));
            }
        }
    }
    for (conn, n) in last {
        if n > cache {
            vs.push(v(
                "C08.server-cache-size",
                format!("C08.server-cache-size:at-rest:cache={}:progs={}", cache, prog_label),
                format!("after its last message backend conn {} still holds {} pooler statements with prepared_statements_cache_size = {}: evicted statements were not closed", conn, n, cache),
            ));
            break;
        }
    }
    // (3) rewritten Parse/Bind differ from the originals only in the statement name
    let mut sent_parses: BTreeSet<(String, Vec<i32>)> = BTreeSet::new();
    let mut sent_binds: BTreeSet<(String, Vec<u8>)> = BTreeSet::new();
    for e in log {
        if let Rec::CSend { bytes, .. } = &e.rec {
            let (msgs, _, _) = wire::split_stream(bytes);
            for m in msgs {
                if m.code == b'P' {
                    if let Some(pm) = wire::decode_parse(&m) {
                        sent_parses.insert((pm.query, pm.types));
                    }
                } else if m.code == b'B' {
                    if let Some((portal, _, rest)) = wire::decode_bind(&m) {
                        sent_binds.insert((portal, rest));
                    }
                }
            }
        }
    }
    for e in log {
        if let Rec::BRecv { msg, .. } = &e.rec {
            if msg.code == b'P' {
                match wire::decode_parse(msg) {
                    Some(pm) => {
                        if !sent_parses.contains(&(pm.query.clone(), pm.types.clone())) {
                            vs.push(v("C08.rewrite-parse", format!("C08.rewrite-parse:{}", ctx), format!("backend received {} which no client sent (text/types altered)", describe(msg))));
                        }
                    }
                    None => vs.push(v("C08.rewrite-parse", format!("C08.rewrite-parse-malformed:{}", ctx), format!("backend received malformed Parse {}", wire::hex(&msg.body)))),
                }
            } else if msg.code == b'B' {
                match wire::decode_bind(msg) {
                    Some((portal, _, rest)) => {
                        if !sent_binds.contains(&(portal, rest)) {
                            vs.push(v("C08.rewrite-bind", format!("C08.rewrite-bind:{}", ctx), format!("backend received {} whose body differs from every client Bind beyond the statement name", describe(msg))));
                        }
                    }
                    None => vs.push(v("C08.rewrite-bind", format!("C08.rewrite-bind-malformed:{}", ctx), "backend received malformed Bind".into())),
                }
            }
        }
    }
    vs
}

pub fn build(tier: &str) -> SimCheck {
    let thorough = tier == "thorough";
    let mut scenarios = Vec::new();
    let caches: Vec<usize> = vec![1, 2, 8];
    for cache in caches {
        for pool_size in [1u32, 2] {
            for pr in PROGRAMS {
                scenarios.push(scenario(cache, pool_size, &[pr]));
            }
            // two clients, same names, different texts
            let pairs: Vec<(&str, &str)> = if thorough {
                let mut v = Vec::new();
                for a in PROGRAMS {
                    for b in PROGRAMS {
                        v.push((*a, *b));
                    }
                }
                v
            } else {
                vec![
                    ("prepare-then-bind", "prepare-then-bind"),
                    ("two-names", "close-reparse"),
                    ("collide-a", "collide-b"),
                    ("collide-b", "collide-a"),
                    ("two-binds-one-batch", "two-names"),
                    ("lru-order", "two-names"),
                    ("same-text-other-types", "describe"),
                    ("parse-bind-same-batch", "two-binds-one-batch"),
                    ("error-parse", "prepare-then-bind"),
                    ("error-parse-twice", "prepare-then-bind"),
                    ("error-parse-twice", "error-parse-twice"),
                    ("error-then-parse-one-batch", "prepare-then-bind"),
                    ("three-parses-one-batch", "prepare-then-bind"),
                    ("ext-copy-evicts", "prepare-then-bind"),
                    ("case-variant", "prepare-then-bind"),
                    ("prepare-then-bind", "sql-prepare-only"),
                    ("two-names", "sql-prepare-only"),
                    ("sql-prepare-between", "prepare-then-bind"),
                ]
            };
            for (a, b) in pairs {
                scenarios.push(scenario(cache, pool_size, &[a, b]));
            }
        }
    }
    for cache in [2usize, 8] {
        for pool_size in [1u32, 2] {
            scenarios.push(reload_scenario(cache, pool_size));
        }
    }
    // generated single-client programs: every batch of <= 2 (thorough 3) items after each prefix, with a probe
    let gens = gen_programs(if thorough { 3 } else { 2 });
    for cache in [1usize, 2, 8] {
        for g in &gens {
            scenarios.push(scenario(cache, 1, &[g.as_str()]));
        }
    }
    SimCheck {
        scenarios,
        oracle: Box::new(oracle),
        bound: if thorough { 3 } else { 2 },
        limits: Limits { max_wall_s: if thorough { 1500.0 } else { 150.0 }, ..Default::default() },
        rule: "generated: every batch of <= 2 (thorough 3) items over {P(a,T1), P(a,T2), P(b,T2), B(a)E, B(b)E, D(S,a), C(S,a), C(S,b), unnamed P B E, C(P,''), B E on a portal named like its statement, C(P,a)} after the prefixes {none, a prepared, a and b prepared}, followed by a probe Bind of a or b, kept when valid on a direct connection, x cache size {1,2,8}; hand-written: scenario = server/pool statement cache size {1,2,8} x pool_size {1,2} x one or two client programs over shared names a/b (prepare then bind across transactions, two names, Describe, Close + re-Parse with new text, two Binds in one batch, LRU order, structurally colliding (text, n, types) encodings, same text with other types, Parse+Bind pairs in one batch, case variants, rejected Parse, the same rejected text parsed again under the same and another name, a rejected and a good Parse in one batch, three new statements in one batch (several evictions at once), an extended-protocol COPY that evicts a statement, a name bound, closed and re-prepared with another known text in one batch, a simple-protocol PREPARE (which makes the pooler DEALLOCATE ALL at check-in) between uses of a protocol-level statement); a RELOAD that rebuilds the pool (fresh statement cache) between the uses of a name by two clients; all schedules with <= bound deviations; oracle = direct-connection reference per client".into(),
        assumptions: vec!["the reference backend without a pooler defines the direct-connection behaviour; synthesised ParseComplete/CloseComplete may be reordered within a reply".into()],
    }
}
