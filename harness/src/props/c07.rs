//! C07 — broken replicas are banned and bypassed; service continues on healthy servers.

use super::common::*;
use super::SimCheck;
use crate::cfg::{host_of, Cfg, PoolCfg};
use crate::explore::{Limits, Violation};
use crate::mockpg::{Accept, Fault, FaultKind, Matcher, Rec, StartupMode};
use crate::wire;
use crate::world::{Actor, Cond, Opts, Outcome, Scenario, Step};
use std::sync::Arc;

pub const EVENTS: &[&str] = &["none", "refuse", "crash", "up", "hcfail", "hchang", "hcslow", "break", "hang", "ban", "unban", "adv-ban", "adv-admin-ban", "stop", "blackhole", "adv-1s", "reload"];
pub const ROLES: &[&str] = &["any", "replica", "primary"];

fn addr_of(i: usize) -> String {
    format!("{}:5432", host_of(0, i, "replica"))
}

fn set_fault(addr: String, f: Fault) -> Step {
    Step::Call(format!("fault {:?} on {}", f.kind, addr), Arc::new(move |n| n.servers.get_mut(&addr).unwrap().faults.push(f.clone())))
}

fn event_steps(ev: &str, target: usize) -> Vec<Step> {
    let addr = addr_of(target);
    let host = host_of(0, target, "replica");
    match ev {
        "none" => vec![],
        "refuse" => {
            let a = addr.clone();
            vec![Step::Call(format!("{} refuses new connections", addr), Arc::new(move |n| n.servers.get_mut(&a).unwrap().accept = Accept::Refuse))]
        }
        "crash" => {
            let a = addr.clone();
            let h = host.clone();
            vec![
                Step::Call(
                    format!("{} crashes", addr),
                    Arc::new(move |n| {
                        n.servers.get_mut(&a).unwrap().accept = Accept::Refuse;
                        n.push(Rec::Note { msg: format!("CRASH {}", h) });
                    }),
                ),
                Step::KillServerConns(addr),
            ]
        }
        "stop" => {
            // the server process is stopped: established connections are gone, new ones are accepted by
            // the kernel and never answered until the server runs again
            let a = addr.clone();
            let h = host.clone();
            vec![
                Step::Call(
                    format!("{} stops answering (accepts, never replies to startup)", addr),
                    Arc::new(move |n| {
                        n.servers.get_mut(&a).unwrap().startup = StartupMode::HangAfterAccept;
                        n.push(Rec::Note { msg: format!("CRASH {}", h) });
                    }),
                ),
                Step::KillServerConns(addr),
            ]
        }
        "blackhole" => {
            // packets to the host are dropped: connect never completes
            let a = addr.clone();
            let h = host.clone();
            vec![
                Step::Call(
                    format!("{} is unreachable (connect hangs)", addr),
                    Arc::new(move |n| {
                        n.servers.get_mut(&a).unwrap().accept = Accept::Blackhole;
                        n.push(Rec::Note { msg: format!("CRASH {}", h) });
                    }),
                ),
                Step::KillServerConns(addr),
            ]
        }
        "up" => {
            let a = addr.clone();
            vec![Step::Call(
                format!("{} recovers", addr),
                Arc::new(move |n| {
                    let s = n.servers.get_mut(&a).unwrap();
                    s.accept = Accept::Up;
                    s.startup = StartupMode::Normal;
                    s.faults.clear();
                    let h = a.split(':').next().unwrap().to_string();
                    n.push(Rec::Note { msg: format!("RECOVER {}", h) });
                }),
            )]
        }
        "hcfail" => vec![set_fault(addr, Fault { on: Matcher::HealthCheck, kind: FaultKind::Close, once: true }), Step::Advance(31_000)],
        "hchang" => vec![set_fault(addr, Fault { on: Matcher::HealthCheck, kind: FaultKind::Hang, once: true }), Step::Advance(31_000)],
        "hcslow" => vec![set_fault(addr, Fault { on: Matcher::HealthCheck, kind: FaultKind::Delay(1500), once: true }), Step::Advance(31_000)],
        "break" => vec![set_fault(addr, Fault { on: Matcher::ClientOriginated, kind: FaultKind::CloseAfterBytes(10), once: true })],
        "hang" => vec![set_fault(addr, Fault { on: Matcher::ClientOriginated, kind: FaultKind::Hang, once: true })],
        "ban" => vec![Step::Admin(format!("BAN {} 30", host))],
        "unban" => vec![Step::Admin(format!("UNBAN {}", host))],
        // a short while: no ban (automatic 60 s, admin 30 s) may have expired, no health check is due
        "adv-1s" => vec![Step::Advance(1_000)],
        // a RELOAD of a file that differs in an unrelated general setting: the pool, and its bans, stay
        "reload" => vec![Step::Probe, Step::WriteConfig(0), Step::Admin("RELOAD".into()), Step::Probe],
        "adv-ban" => vec![Step::Advance(61_000)],
        "adv-admin-ban" => vec![Step::Advance(31_000)],
        _ => panic!("event"),
    }
}

pub fn scenario(replicas: usize, primary: bool, lb: &str, history: &[(&str, usize, &str)]) -> Scenario {
    let mut pool = PoolCfg::simple("db", "transaction", 2, if primary { 1 } else { 0 }, replicas);
    pool.extra = format!("load_balancing_mode = \"{}\"\n", lb);
    pool.users[0].extra = "statement_timeout = 3000\n".into();
    let mut cfg = Cfg::one(pool);
    cfg.connect_timeout = 2000;
    cfg.healthcheck_timeout = 1000;
    cfg.healthcheck_delay = 30_000;
    cfg.ban_time = 60;
    let servers = cfg.servers();
    let login = Step::Reconnect { user: "alice".into(), db: "db".into(), password: Some("alicepw".into()) };
    let mut steps: Vec<Step> = vec![login.clone()];
    let mut roles = Vec::new();
    for (j, (ev, target, role)) in history.iter().enumerate() {
        steps.extend(event_steps(ev, *target));
        steps.push(login.clone());
        steps.push(Step::Probe);
        steps.push(Step::Send { bytes: wire::query(&format!("SET SERVER ROLE TO '{}'", role)), label: format!("SET SERVER ROLE TO '{}'", role) });
        steps.push(Step::Wait(Cond::ReplyOrClosed));
        steps.push(login.clone());
        let sql = format!("SELECT 1 /*{} role={}*/", tag(0, j, 0), role);
        steps.push(Step::Send { bytes: wire::query(&sql), label: format!("Q {}", sql) });
        steps.push(Step::Wait(Cond::ReplyOrClosed));
        steps.push(Step::Probe);
        roles.push(role.to_string());
    }
    // afterwards, once everything is healthy and bans have expired, both roles must be served
    for i in 0..replicas {
        steps.extend(event_steps("up", i));
    }
    // bans expire; connects that were swallowed by a black hole have failed by then (127 s)
    let blackholed = history.iter().any(|(e, _, _)| *e == "blackhole");
    steps.push(Step::Advance(if blackholed { 130_000 } else { 61_000 }));
    for (k, role) in ["replica", "any", "replica"].iter().enumerate() {
        if *role == "replica" && replicas == 0 {
            continue;
        }
        let j = history.len() + k;
        steps.push(login.clone());
        steps.push(Step::Probe);
        steps.push(Step::Send { bytes: wire::query(&format!("SET SERVER ROLE TO '{}'", role)), label: format!("SET SERVER ROLE TO '{}'", role) });
        steps.push(Step::Wait(Cond::ReplyOrClosed));
        steps.push(login.clone());
        let sql = format!("SELECT 1 /*{} role={} final*/", tag(0, j, 0), role);
        steps.push(Step::Send { bytes: wire::query(&sql), label: format!("Q {}", sql) });
        steps.push(Step::Wait(Cond::ReplyOrClosed));
        steps.push(Step::Probe);
    }
    let hname: Vec<String> = history.iter().map(|(e, t, r)| format!("{}{}:{}", e, t, r)).collect();
    Scenario {
        name: format!("C07 replicas={} primary={} lb={} history={}", replicas, primary, lb, hname.join(",")),
        toml: cfg.toml(),
        alt_tomls: vec![{
            let mut c2 = cfg.clone();
            c2.general_extra = format!("{}log_client_disconnections = true\n", c2.general_extra);
            c2.toml()
        }],
        servers,
        actors: vec![Actor { name: "c0".into(), steps }],
        opts: Opts { explore_perms: true, max_events: 600, horizon_ms: 600_000, ..Opts::default() },
        meta: serde_json::json!({"replicas": replicas, "primary": primary, "history": hname}),
    }
}

/// A second client keeps a transaction open on a replica for the whole history: the replica's pool has a
/// connection in use and none idle while the fault events hit that replica.
pub fn scenario_with_holder(replicas: usize, primary: bool, lb: &str, history: &[(&str, usize, &str)]) -> Scenario {
    let mut sc = scenario(replicas, primary, lb, history);
    let holder = crate::cfg::Script::new("holder")
        .connect("alice", "db", Some("alicepw"))
        .q("SET SERVER ROLE TO 'replica'")
        .q("BEGIN")
        .q("SELECT 'held'")
        .wait(Cond::ActorsDone(vec![0]))
        .q("COMMIT")
        .terminate()
        .actor();
    let at = holder.steps.iter().position(|s| matches!(s, Step::Wait(Cond::ActorsDone(_)))).unwrap();
    sc.actors[0].steps.insert(0, Step::Wait(Cond::ActorAt(1, at)));
    sc.actors.push(holder);
    sc.name = format!("{} holder=yes", sc.name);
    sc
}

fn role_of(addr: &str) -> &'static str {
    match addr.split('-').nth(2).and_then(|x| x.chars().next()) {
        Some('p') => "primary",
        Some('r') => "replica",
        _ => "?",
    }
}

pub fn oracle(sc: &Scenario, out: &Outcome) -> Vec<Violation> {
    let log = &out.log;
    let mut vs = Vec::new();
    let replicas = sc.meta["replicas"].as_u64().unwrap() as usize;
    let primary = sc.meta["primary"].as_bool().unwrap();
    let hist: Vec<String> = sc.meta["history"].as_array().unwrap().iter().map(|x| x.as_str().unwrap().to_string()).collect();
    let hsig: String = hist.iter().map(|h| h.split(|c: char| c.is_ascii_digit()).next().unwrap_or("").to_string() + ":" + h.split(':').nth(1).unwrap_or("")).collect::<Vec<_>>().join(",");
    let ctx = format!("r={}:p={}:{}", replicas, primary, hsig);
    if out.blocked {
        vs.push(v("C07.blocked", format!("C07.blocked:{}", ctx), format!("a client is blocked indefinitely: {}", blocked_note(log).unwrap_or_default())));
        return vs;
    }
    // walk the log: for each tagged statement find the probe before, the outcome, the probe after
    let probes: Vec<(usize, serde_json::Value)> = log
        .iter()
        .filter_map(|e| match &e.rec {
            Rec::Probe { data } => Some((e.seq, serde_json::from_str(data).unwrap())),
            _ => None,
        })
        .collect();
    for (_, p) in &probes {
        for b in p["bans"].as_array().unwrap() {
            if b["role"] == "primary" {
                vs.push(v("C07.primary-banned", format!("C07.primary-banned:{}", ctx), format!("the primary appears in the ban list: {}", b)));
            }
        }
    }
    // a RELOAD that leaves the pool alone leaves its bans alone: what was banned (and has not expired) before
    // the command is banned after it
    for e in log {
        if let Rec::Event { label, .. } = &e.rec {
            if label != "admin(RELOAD)" {
                continue;
            }
            let before = probes.iter().rev().find(|(s, _)| *s < e.seq).map(|(_, p)| p.clone());
            let after = probes.iter().find(|(s, _)| *s > e.seq).map(|(_, p)| p.clone());
            if let (Some(b), Some(a)) = (before, after) {
                let now = a["now_s"].as_i64().unwrap();
                let listed: Vec<String> = a["bans"].as_array().unwrap().iter().map(|x| x["host"].as_str().unwrap().to_string()).collect();
                for ban in b["bans"].as_array().unwrap() {
                    let since = ban["since_s"].as_i64().unwrap();
                    let reason = ban["reason"].as_str().unwrap_or("");
                    let dur = if let Some(r) = reason.strip_prefix("AdminBan(") { r.trim_end_matches(')').parse::<i64>().unwrap_or(60) } else { ban["ban_time"].as_i64().unwrap_or(60) };
                    let host = ban["host"].as_str().unwrap().to_string();
                    if now - since < dur && !listed.contains(&host) {
                        vs.push(v("C07.ban-lost", format!("C07.ban-lost:reload:{}", ctx), format!("{} was banned ({}) before the RELOAD of an unrelated setting and is not after it", host, reason)));
                    }
                }
            }
        }
    }
    let sends: Vec<(usize, u64, String)> = log
        .iter()
        .filter_map(|e| match &e.rec {
            Rec::CSend { c: 0, bytes } => {
                let t = String::from_utf8_lossy(bytes).to_string();
                if t.contains("role=") && find_tag(bytes).is_some() {
                    Some((e.seq, e.t_ms, t))
                } else {
                    None
                }
            }
            _ => None,
        })
        .collect();
    for (i, (seq, t_ms, text)) in sends.iter().enumerate() {
        let tg = find_tag(text.as_bytes()).unwrap();
        let role = text.split("role=").nth(1).unwrap_or("").split(|c: char| !c.is_ascii_alphabetic()).next().unwrap_or("").to_string();
        let is_final = text.contains("final");
        let end_seq = sends.get(i + 1).map(|s| s.0).unwrap_or(usize::MAX);
        let before = probes.iter().rev().find(|(s, _)| s < seq).map(|(_, p)| p.clone());
        let before = match before {
            Some(b) => b,
            None => continue,
        };
        let now_s = before["now_s"].as_i64().unwrap();
        let banned: Vec<String> = before["bans"]
            .as_array()
            .unwrap()
            .iter()
            .filter(|b| {
                let since = b["since_s"].as_i64().unwrap();
                let reason = b["reason"].as_str().unwrap_or("");
                let dur = if let Some(r) = reason.strip_prefix("AdminBan(") { r.trim_end_matches(')').parse::<i64>().unwrap_or(60) } else { b["ban_time"].as_i64().unwrap_or(60) };
                now_s - since <= dur
            })
            .map(|b| b["host"].as_str().unwrap().to_string())
            .collect();
        let all_replicas_listed = before["bans"].as_array().unwrap().len() >= replicas && replicas > 0;
        // when every replica is banned the pooler lifts all the bans ("better a broken replica than none"): from
        // then on the banned replicas are candidates again, with whatever is wrong with them
        let banned_for_choice: Vec<String> = if all_replicas_listed { Vec::new() } else { banned.clone() };
        // servers whose established connections were killed and that have not been used/recovered since
        let mut crashed: Vec<String> = Vec::new();
        for e in log.iter().take_while(|e| e.seq < *seq) {
            if let Rec::Note { msg } = &e.rec {
                if let Some(h) = msg.strip_prefix("CRASH ") {
                    if !crashed.contains(&h.to_string()) {
                        crashed.push(h.to_string());
                    }
                }
                // RECOVER does not revive the pooled connections that died in the crash: they stay
                // dead until the pooler touches them (a use or a health check)
            }
        }
        // candidates of the requested role and their health
        let mut healthy_unbanned = 0;
        let mut fragile_unbanned = 0;
        let mut candidates = 0;
        for be in before["backends"].as_array().unwrap() {
            let addr = be["addr"].as_str().unwrap();
            let r = role_of(addr);
            if role != "any" && r != role {
                continue;
            }
            candidates += 1;
            let host = addr.split(':').next().unwrap().to_string();
            let faults: Vec<String> = be["faults"].as_array().unwrap().iter().map(|f| f.as_str().unwrap_or("").to_string()).collect();
            let healthy = be["accept"] == "Up" && be["startup"] == "Normal" && faults.is_empty() && !crashed.contains(&host);
            // a server that will break while executing (or whose pooled connections are dead) may fail this one transaction
            let fragile = faults.iter().any(|f| f.contains("ClientOriginated")) || crashed.contains(&host);
            if !banned_for_choice.contains(&host) {
                if healthy {
                    healthy_unbanned += 1;
                }
                if fragile {
                    fragile_unbanned += 1;
                }
            }
        }
        // candidates observed failing during this transaction
        let mut failing: Vec<String> = Vec::new();
        for e in log.iter().filter(|e| e.seq > *seq && e.seq < end_seq) {
            match &e.rec {
                Rec::Note { msg } => {
                    if let Some(rest) = msg.strip_prefix("connect ") {
                        let addr = rest.split_whitespace().next().unwrap_or("");
                        failing.push(addr.split(':').next().unwrap_or("").to_string());
                    } else if msg.starts_with("conn ") && (msg.contains("hangs") || msg.contains("delays")) {
                        // (includes "conn N startup hangs")
                        if let Some(id) = msg.split_whitespace().nth(1).and_then(|x| x.parse::<usize>().ok()) {
                            failing.push(conn_server(log, id).split(':').next().unwrap_or("").to_string());
                        }
                    }
                }
                Rec::BClose { conn, by } if by.starts_with("server") => {
                    failing.push(conn_server(log, *conn).split(':').next().unwrap_or("").to_string());
                }
                _ => {}
            }
        }
        // outcome
        let row = log.iter().find(|e| e.seq > *seq && e.seq < end_seq && matches!(&e.rec, Rec::CRecv { c: 0, msg } if msg.code == b'D' && msg_tag(msg) == Some(tg)));
        let errs: Vec<String> = log
            .iter()
            .filter(|e| e.seq > *seq && e.seq < end_seq)
            .filter_map(|e| match &e.rec {
                Rec::CRecv { c: 0, msg } if msg.code == b'E' => Some(msg.err_field(b'M').unwrap_or_default()),
                _ => None,
            })
            .collect();
        let foreign = log.iter().find(|e| e.seq > *seq && e.seq < end_seq && matches!(&e.rec, Rec::CRecv { c: 0, msg } if (msg.code == b'D' || msg.code == b'I') && msg_tag(msg) != Some(tg)));
        if let Some(f) = foreign {
            if let Rec::CRecv { msg, .. } = &f.rec {
                vs.push(v("C07.stale-reply", format!("C07.stale-reply:{}", ctx), format!("transaction {:?} received a reply that belongs to something else: {}", tg, describe(msg))));
            }
        }
        let reply_t = log.iter().find(|e| e.seq > *seq && e.seq < end_seq && matches!(&e.rec, Rec::CRecv { c: 0, msg } if msg.code == b'Z' || msg.code == b'E') || matches!(&e.rec, Rec::CEof { c: 0 }) && e.seq > *seq && e.seq < end_seq).map(|e| e.t_ms).unwrap_or(*t_ms);
        let took = reply_t.saturating_sub(*t_ms);
        let budget = (candidates as u64 + 1) * (2000 + 1000) + 3000 + 500;
        if took > budget {
            vs.push(v("C07.slow-detection", format!("C07.slow-detection:{}", ctx), format!("transaction {:?} needed {} ms, more than the configured timeouts allow ({} ms)", tg, took, budget)));
        }
        // where did it run
        let ran_on: Vec<String> = log
            .iter()
            .filter_map(|e| match &e.rec {
                Rec::BRecv { conn, msg, .. } if msg.code == b'Q' && msg_tag(msg) == Some(tg) => Some(conn_server(log, *conn)),
                _ => None,
            })
            .collect();
        for srv in &ran_on {
            let r = role_of(srv);
            if role != "any" && r != role {
                vs.push(v("C07.wrong-role", format!("C07.wrong-role:{}", ctx), format!("transaction {:?} (role {}) ran on {}", tg, role, srv)));
            }
            let host = srv.split(':').next().unwrap().to_string();
            let replica_hosts: Vec<String> = (0..replicas).map(|i| host_of(0, i, "replica")).collect();
            // a replica that is down, or whose pooled connections died with it, is not "another candidate"
            let down: Vec<String> = before["backends"]
                .as_array()
                .unwrap()
                .iter()
                .filter(|b| b["accept"] != "Up" || b["startup"] != "Normal")
                .map(|b| b["addr"].as_str().unwrap().split(':').next().unwrap().to_string())
                .collect();
            let all_out = replica_hosts.iter().all(|h| banned.contains(h) || failing.contains(h) || crashed.contains(h) || down.contains(h));
            if banned.contains(&host) && !all_replicas_listed && !all_out {
                vs.push(v(
                    "C07.banned-server-used",
                    format!("C07.banned-server-used:{}", ctx),
                    format!("transaction {:?} ran on {} which was banned (bans {:?}) while other candidates existed", tg, srv, banned),
                ));
            }
        }
        if ran_on.len() > 1 {
            vs.push(v("C07.ran-twice", format!("C07.ran-twice:{}", ctx), format!("transaction {:?} reached servers {:?}", tg, ran_on)));
        }
        if (healthy_unbanned > 0 && fragile_unbanned == 0) || is_final {
            // service must continue, and failures of other candidates stay invisible
            if row.is_none() {
                // the recorded finding: the only candidate's pooled connections died with the server and the
                // health check on one of them fails; not when a connect attempt is (or was) stuck
                let stuck_connect = log.iter().take_while(|e| e.seq < end_seq).any(|e| matches!(&e.rec, Rec::Note { msg } if msg.starts_with("connect ") && msg.contains("hangs") || msg.contains("startup hangs")));
                let single_restarted = candidates == 1 && crashed.len() == 1 && !stuck_connect;
                // the same defect with several candidates: every one of them restarted, each dead pooled
                // connection fails its health check, all get banned, the transaction is refused
                let cand_hosts: Vec<String> = before["backends"]
                    .as_array()
                    .unwrap()
                    .iter()
                    .map(|b| b["addr"].as_str().unwrap().to_string())
                    .filter(|a| role == "any" || role_of(a) == role)
                    .map(|a| a.split(':').next().unwrap().to_string())
                    .collect();
                let all_restarted = candidates > 1 && cand_hosts.iter().all(|h| crashed.contains(h)) && !stuck_connect;
                vs.push(v(
                    "C07.refused",
                    if single_restarted { "C07.refused:single-candidate-after-restart".to_string() } else if all_restarted { "C07.refused:all-candidates-after-restart".to_string() } else { format!("C07.refused:{}:{}", if is_final { "final" } else { "mid" }, ctx) },
                    format!(
                        "transaction {:?} (role {}) was not served although {} healthy unbanned candidate(s) existed (bans {:?}); client saw {:?}",
                        tg, role, healthy_unbanned, banned, errs
                    ),
                ));
            } else if !errs.is_empty() {
                vs.push(v("C07.visible-failure", format!("C07.visible-failure:{}", ctx), format!("transaction {:?} was served but the client also saw {:?}", tg, errs)));
            }
        }
        if candidates == 0 && row.is_some() {
            vs.push(v("C07.no-such-role", format!("C07.no-such-role:{}", ctx), format!("transaction {:?} asked for role {} which has no server, yet it ran", tg, role)));
        }
        // after: replicas observed failing during this transaction must be banned
        let after = probes.iter().find(|(s, _)| s > seq).map(|(_, p)| p.clone());
        if let Some(after) = after {
            let listed: Vec<String> = after["bans"].as_array().unwrap().iter().map(|b| b["host"].as_str().unwrap().to_string()).collect();
            for e in log.iter().filter(|e| e.seq > *seq && e.seq < end_seq) {
                if let Rec::Note { msg } = &e.rec {
                    if let Some(rest) = msg.strip_prefix("connect ") {
                        if rest.ends_with("refused") {
                            let addr = rest.split_whitespace().next().unwrap_or("");
                            let host = addr.split(':').next().unwrap_or("").to_string();
                            if role_of(addr) == "replica" && !listed.contains(&host) && row.is_some() {
                                vs.push(v("C07.not-banned", format!("C07.not-banned:refused:{}", ctx), format!("replica {} refused connections during {:?} but is not in the ban list {:?}", addr, tg, listed)));
                            }
                        }
                    }
                }
            }
        }
    }
    vs
}

pub fn build(tier: &str) -> SimCheck {
    let thorough = tier == "thorough";
    let mut scenarios = Vec::new();
    let shapes: Vec<(usize, bool)> = if thorough { vec![(1, true), (2, true), (3, true), (1, false), (2, false), (0, true)] } else { vec![(2, true), (1, false), (2, false)] };
    for (replicas, primary) in shapes {
        for lb in ["random", "loc"] {
            if !thorough && lb == "loc" && !(replicas == 2 && primary) {
                continue;
            }
            if replicas == 0 {
                for role in ROLES {
                    scenarios.push(scenario(0, primary, lb, &[("none", 0, role), ("adv-ban", 0, role)]));
                }
                continue;
            }
            // depth 1: every event on replica 0 followed by every role
            for ev in EVENTS {
                for role in ROLES {
                    scenarios.push(scenario(replicas, primary, lb, &[(ev, 0, role)]));
                }
            }
            // depth 2: every ordered pair of events (on replica 0, then on replica 0 or 1)
            let roles2: Vec<&str> = if thorough { ROLES.to_vec() } else { vec!["replica"] };
            for e1 in EVENTS {
                for e2 in EVENTS {
                    if *e1 == "none" || *e2 == "none" {
                        continue;
                    }
                    for t2 in 0..replicas.min(2) {
                        for r1 in &roles2 {
                            for r2 in &roles2 {
                                if !thorough && t2 == 1 && !["refuse", "crash", "ban", "break", "hcfail"].contains(e2) {
                                    continue;
                                }
                                scenarios.push(scenario(replicas, primary, lb, &[(e1, 0, r1), (e2, t2, r2)]));
                            }
                        }
                    }
                }
            }
            if thorough && replicas == 2 {
                // depth 3 over the core fault events
                let core = ["refuse", "crash", "up", "hcfail", "break", "ban", "adv-ban"];
                for e1 in core {
                    for e2 in core {
                        for e3 in core {
                            scenarios.push(scenario(replicas, primary, lb, &[(e1, 0, "replica"), (e2, 1, "any"), (e3, 0, "replica")]));
                        }
                    }
                }
            }
        }
    }
    // a replica with a connection in use (a client inside a transaction) and none idle, then the events
    for (replicas, primary) in [(2usize, true), (1, true)] {
        for ev in ["refuse", "stop", "blackhole", "hcfail", "ban"] {
            for role in ["replica", "any"] {
                scenarios.push(scenario_with_holder(replicas, primary, "random", &[(ev, 0, role)]));
                if thorough || ev == "refuse" {
                    scenarios.push(scenario_with_holder(replicas, primary, "random", &[(ev, 0, role), ("none", 0, role)]));
                    scenarios.push(scenario_with_holder(replicas, primary, "random", &[(ev, 0, role), (ev, 1 % replicas, role)]));
                }
            }
        }
    }
    SimCheck {
        scenarios,
        oracle: Box::new(oracle),
        bound: 1,
        limits: Limits { max_wall_s: if thorough { 2400.0 } else { 150.0 }, ..Default::default() },
        rule: "scenario = shard shape (replicas 1..3 with/without primary, primary only) x load-balancing mode x history of depth 1-2 (thorough 3) over 16 events on a replica (down, crashed, stopped = accepts but never answers the startup until it runs again, black-holed = connect swallowed until the kernel's 127 s timeout, recover, health check failing / hanging / answering late after an idle gap, breaking or hanging mid-statement, admin BAN / UNBAN, one second passing, ban expiry, admin-ban expiry, a RELOAD of an unrelated general setting), each followed by a transaction with role any/replica/primary between two pooler-state probes, then recovery and final transactions; the same with a second client holding a transaction open on a replica throughout (its pool has a connection in use and none idle); every candidate order (enumerated shuffle) with 1 deviation".into(),
        assumptions: vec![
            "ban membership is read from the pooler (get_bans) and cross-checked against observed failures; expiry is computed from the virtual wall clock".into(),
            "a candidate with any pending injected fault counts as unhealthy when deciding whether service was owed".into(),
        ],
    }
}
