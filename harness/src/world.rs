//! The closed world of the `sim` engine: the real pooler tasks, the reference
//! backend, scripted clients and an environment actor, all on one
//! current-thread tokio runtime with a paused clock, driven event by event by a
//! schedule (a list of choice indices).

use crate::mockpg::{self, Accept, ConnInfo, Entry, Net, Rec, ServerSpec, Shared};
use crate::wire::{self, Msg};
use parking_lot::Mutex;
use serde::{Deserialize, Serialize};
use std::collections::hash_map::DefaultHasher;
use std::hash::{Hash, Hasher};
use std::sync::atomic::{AtomicBool, Ordering};
use std::sync::Arc;
use tokio::io::{AsyncReadExt, AsyncWriteExt};
use tokio::sync::mpsc;

#[derive(Clone, Debug, PartialEq, Eq)]
pub enum CloseKind {
    /// both directions vanish at once (peer writes fail)
    HardDrop,
    /// client half-closes: pooler reads EOF, its writes still succeed
    Fin,
}

#[derive(Clone, Debug)]
pub enum Cond {
    /// total ReadyForQuery messages received on the current connection >= n
    Z(usize),
    /// total messages received on the current connection >= n
    Msgs(usize),
    /// connection closed by the pooler
    Closed,
    /// Z(n) or closed
    ZOrClosed(usize),
    /// the listed actors have finished their scripts
    ActorsDone(Vec<usize>),
    /// virtual time >= ms
    TimeMs(u64),
    /// the given actor has completed at least n steps
    ActorAt(usize, usize),
    /// at least n messages with this type byte received (or closed)
    CodeOrClosed(u8, usize),
    /// a ReadyForQuery arrived after this actor's last send (or closed)
    ReplyOrClosed,
}

#[derive(Clone, Debug)]
pub enum CancelKey {
    /// the key the pooler issued to this client actor
    OfClient(usize),
    /// the key issued to this client actor on its previous (closed) connection
    StaleOfClient(usize),
    Raw(i32, i32),
    /// pid of client, wrong secret
    PidOnly(usize),
}

pub type CallFn = Arc<dyn Fn(&mut Net) + Send + Sync>;
/// (salt issued on this connection, salt issued on the actor's previous connection) -> bytes to send
pub type DynFn = Arc<dyn Fn(Option<[u8; 4]>, Option<[u8; 4]>) -> Vec<u8> + Send + Sync>;

#[derive(Clone)]
pub enum Step {
    /// open a connection and log in (composite event)
    Connect { user: String, db: String, password: Option<String>, params: Vec<(String, String)> },
    /// open a connection only
    Open,
    /// log in again if the connection is gone (no-op otherwise)
    Reconnect { user: String, db: String, password: Option<String> },
    Send { bytes: Vec<u8>, label: String },
    /// answer the MD5 challenge received on this connection (dynamic bytes)
    SendPassword { user: String, password: String },
    /// bytes computed at run time from the salts seen
    SendDyn(String, DynFn),
    Wait(Cond),
    Close(CloseKind),
    /// stop reading from the socket (back-pressure)
    StopReading,
    // --- environment ---
    Admin(String),
    Advance(u64),
    Call(String, CallFn),
    /// kill all open backend connections of a server (as a crash would)
    KillServerConns(String),
    /// write config variant i to the config file and reload (SIGHUP path)
    ReloadSighup(usize),
    /// write config variant i to the config file (RELOAD via Admin step follows)
    WriteConfig(usize),
    Shutdown,
    /// deliver a unix signal to the real main loop (main_loop mode): "INT", "TERM", "HUP"
    Signal(&'static str),
    Cancel(CancelKey),
    /// record a snapshot of pooler-side state (pool_state, stats registries, ban lists)
    Probe,
}

impl Step {
    pub fn label(&self) -> String {
        match self {
            Step::Connect { user, db, .. } => format!("connect({}@{})", user, db),
            Step::Open => "open".into(),
            Step::Reconnect { .. } => "reconnect-if-needed".into(),
            Step::Send { label, .. } => format!("send({})", label),
            Step::SendPassword { .. } => "send(password)".into(),
            Step::SendDyn(l, _) => format!("send-dyn({})", l),
            Step::Wait(c) => format!("wait({:?})", c),
            Step::Close(k) => format!("close({:?})", k),
            Step::StopReading => "stop-reading".into(),
            Step::Admin(s) => format!("admin({})", s),
            Step::Advance(ms) => format!("advance({}ms)", ms),
            Step::Call(l, _) => format!("call({})", l),
            Step::KillServerConns(a) => format!("kill-conns({})", a),
            Step::ReloadSighup(i) => format!("reload-sighup(v{})", i),
            Step::WriteConfig(i) => format!("write-config(v{})", i),
            Step::Shutdown => "shutdown".into(),
            Step::Signal(s) => format!("signal({})", s),
            Step::Cancel(k) => format!("cancel({:?})", k),
            Step::Probe => "probe".into(),
        }
    }
}

#[derive(Clone)]
pub struct Actor {
    pub name: String,
    pub steps: Vec<Step>,
}

#[derive(Clone, Debug)]
pub struct Opts {
    pub seed: u64,
    pub max_events: usize,
    pub horizon_ms: u64,
    pub explore_perms: bool,
    /// when nothing is enabled but scripts are unfinished, let virtual time run
    pub stuck_advance: bool,
    pub trace: bool,
    /// do not call from_config at start (C15 probes config::parse alone)
    pub skip_pool_init: bool,
    /// record a pooler-state probe at every quiescent point
    pub probe_each: bool,
    /// run the accept / signal / drain loop extracted from src/main.rs; client
    /// connections are handed to its listener and signals to its signal streams
    pub main_loop: bool,
}

impl Default for Opts {
    fn default() -> Self {
        Opts {
            seed: 1,
            max_events: 400,
            horizon_ms: 120_000,
            explore_perms: false,
            stuck_advance: true,
            trace: false,
            skip_pool_init: false,
            probe_each: false,
            main_loop: false,
        }
    }
}

#[derive(Clone)]
pub struct Scenario {
    pub name: String,
    pub toml: String,
    pub alt_tomls: Vec<String>,
    pub servers: Vec<ServerSpec>,
    pub actors: Vec<Actor>,
    pub opts: Opts,
    /// free-form expectations for the scenario's oracle
    pub meta: serde_json::Value,
}

#[derive(Clone, Debug, Serialize, Deserialize)]
pub struct Point {
    pub n: u32,
    pub chosen: u32,
    pub kind: u8, // 0 = actor scheduling, 1 = candidate permutation
    pub labels: Vec<String>,
}

pub struct Sched {
    pub prefix: Vec<u32>,
    pub expect_n: Vec<u32>,
    pub points: Vec<Point>,
    pub diverged: Option<String>,
    pub trace: bool,
}

impl Sched {
    pub fn choose(&mut self, n: usize, kind: u8, labels: impl Fn() -> Vec<String>) -> usize {
        if n <= 1 {
            return 0;
        }
        let pos = self.points.len();
        let c = if pos < self.prefix.len() {
            if let Some(e) = self.expect_n.get(pos) {
                if *e as usize != n && self.diverged.is_none() {
                    self.diverged = Some(format!("choice point {}: expected {} alternatives, saw {}", pos, e, n));
                }
            }
            let c = self.prefix[pos] as usize;
            if c >= n {
                if self.diverged.is_none() {
                    self.diverged = Some(format!("choice point {}: prefix choice {} out of range {}", pos, c, n));
                }
                0
            } else {
                c
            }
        } else {
            0
        };
        let l = if self.trace { labels() } else { vec![] };
        self.points.push(Point { n: n as u32, chosen: c as u32, kind, labels: l });
        c
    }
}

#[derive(Default)]
pub struct ClientBuf {
    pub raw: Vec<u8>,
    pub consumed: usize,
    pub msgs: Vec<Msg>,
    pub z: usize,
    pub eof: bool,
    pub key: Option<(i32, i32)>,
    pub salt: Option<[u8; 4]>,
    pub ssl_bytes_pending: usize,
    pub bad_framing: bool,
}

enum Cmd {
    Write(Vec<u8>),
    Fin,
}

pub struct ClientRt {
    pub open: bool,
    pub buf: Arc<Mutex<ClientBuf>>,
    tx: Option<mpsc::UnboundedSender<Cmd>>,
    reader: Option<tokio::task::JoinHandle<()>>,
    writer: Option<tokio::task::JoinHandle<()>>,
    pub stale_key: Option<(i32, i32)>,
    pub stale_salt: Option<[u8; 4]>,
    pub z_at_send: usize,
    pub conn_serial: usize,
    pub stop_reading: Arc<AtomicBool>,
}

pub struct World {
    pub net: Shared,
    pub sched: Arc<Mutex<Sched>>,
    pub csm: pgcat::pool::ClientServerMap,
    pub shutdown_tx: tokio::sync::broadcast::Sender<()>,
    pub drain_tx: mpsc::Sender<i32>,
    pub admin_only: bool,
    pub clients: Vec<ClientRt>,
    pub idx: Vec<usize>,
    pub scenario: Scenario,
    pub config_path: String,
    pub admin: Option<usize>,
    pub state_hashes: Vec<u64>,
    pub events: usize,
    pub blocked: bool,
    pub pending_async: Arc<AtomicBool>,
    pub tasks_alive: Arc<Mutex<Vec<(usize, usize, bool)>>>,
    pub main: Option<MainCtl>,
}

/// Handles on the extracted main loop.
pub struct MainCtl {
    pub accept_tx: mpsc::UnboundedSender<(pgcat::verif::net::TcpStream, std::net::SocketAddr)>,
    pub int_tx: mpsc::UnboundedSender<()>,
    pub term_tx: mpsc::UnboundedSender<()>,
    pub hup_tx: mpsc::UnboundedSender<()>,
    pub exited: Arc<AtomicBool>,
}

pub async fn quiesce() {
    tokio::time::sleep(std::time::Duration::from_nanos(1)).await;
}

fn peer_addr(n: usize) -> std::net::SocketAddr {
    std::net::SocketAddr::from(([10, 0, (n / 250) as u8, (n % 250) as u8 + 1], 40000 + (n % 20000) as u16))
}

impl World {
    pub fn log(&self, rec: Rec) {
        self.net.lock().push(rec);
    }

    fn client_index(&mut self, actor: usize) -> usize {
        actor
    }

    /// Open a client connection for `actor` and spawn the real client task.
    pub fn open_client(&mut self, actor: usize) {
        let (client_end, pooler_end) = tokio::io::duplex(1 << 20);
        let serial = {
            let c = &mut self.clients[actor];
            c.conn_serial += 1;
            c.conn_serial
        };
        let stream = pgcat::verif::net::TcpStream::from_duplex(pooler_end, peer_addr(actor * 16 + serial));
        let stream = if let Some(m) = &self.main {
            // the real accept loop spawns the client task
            let _ = m.accept_tx.send((stream, peer_addr(actor * 16 + serial)));
            None
        } else {
            Some(stream)
        };
        let csm = self.csm.clone();
        let shutdown_rx = self.shutdown_tx.subscribe();
        let drain = self.drain_tx.clone();
        let admin_only = self.admin_only;
        let net = self.net.clone();
        let alive = self.tasks_alive.clone();
        alive.lock().push((actor, serial, true));
        if let Some(stream) = stream {
        let handle = tokio::spawn(async move {
            pgcat::client::client_entrypoint(stream, csm, shutdown_rx, drain, admin_only, None, false).await
        });
        tokio::spawn(async move {
            let res = handle.await;
            let note = match res {
                Ok(Ok(())) => format!("client-task actor={} serial={} ended Ok", actor, serial),
                Ok(Err(e)) => format!("client-task actor={} serial={} ended Err({:?})", actor, serial, e),
                Err(e) if e.is_panic() => {
                    let p = e.into_panic();
                    let m = if let Some(s) = p.downcast_ref::<String>() {
                        s.clone()
                    } else if let Some(s) = p.downcast_ref::<&str>() {
                        s.to_string()
                    } else {
                        "panic".to_string()
                    };
                    net.lock().push(Rec::Panic { msg: format!("client-task actor={} serial={}: {}", actor, serial, m) });
                    format!("client-task actor={} serial={} panicked", actor, serial)
                }
                Err(_) => format!("client-task actor={} serial={} cancelled", actor, serial),
            };
            net.lock().push(Rec::Note { msg: note });
            for t in alive.lock().iter_mut() {
                if t.0 == actor && t.1 == serial {
                    t.2 = false;
                }
            }
        });
        }

        let (rd, wr) = tokio::io::split(client_end);
        let buf = Arc::new(Mutex::new(ClientBuf::default()));
        let stop = Arc::new(AtomicBool::new(false));
        let reader = {
            let buf = buf.clone();
            let net = self.net.clone();
            let stop = stop.clone();
            let mut rd = rd;
            tokio::spawn(async move {
                let mut tmp = vec![0u8; 65536];
                loop {
                    if stop.load(Ordering::Relaxed) {
                        std::future::pending::<()>().await;
                    }
                    match rd.read(&mut tmp).await {
                        Ok(0) | Err(_) => {
                            buf.lock().eof = true;
                            net.lock().push(Rec::CEof { c: actor });
                            return;
                        }
                        Ok(n) => {
                            let mut b = buf.lock();
                            b.raw.extend_from_slice(&tmp[..n]);
                            // frame
                            loop {
                                if b.ssl_bytes_pending > 0 && b.raw.len() > b.consumed {
                                    let code = b.raw[b.consumed];
                                    b.consumed += 1;
                                    b.ssl_bytes_pending -= 1;
                                    let m = Msg { code, body: vec![0xff, b'S', b'S', b'L'] };
                                    b.msgs.push(m.clone());
                                    net.lock().push(Rec::CRecv { c: actor, msg: m });
                                    continue;
                                }
                                let start = b.consumed;
                                let (msgs, used, ok) = wire::split_stream(&b.raw[start..]);
                                if !ok {
                                    b.bad_framing = true;
                                }
                                b.consumed += used;
                                for m in msgs {
                                    if m.code == b'Z' {
                                        b.z += 1;
                                    }
                                    if m.code == b'K' && m.body.len() == 8 {
                                        b.key = Some((
                                            i32::from_be_bytes(m.body[0..4].try_into().unwrap()),
                                            i32::from_be_bytes(m.body[4..8].try_into().unwrap()),
                                        ));
                                    }
                                    if m.code == b'R' && m.body.len() == 8 && m.body[..4] == 5i32.to_be_bytes() {
                                        b.salt = Some(m.body[4..8].try_into().unwrap());
                                    }
                                    b.msgs.push(m.clone());
                                    net.lock().push(Rec::CRecv { c: actor, msg: m });
                                }
                                break;
                            }
                        }
                    }
                }
            })
        };
        let (tx, mut rx) = mpsc::unbounded_channel::<Cmd>();
        let writer = {
            let mut wr = wr;
            tokio::spawn(async move {
                while let Some(cmd) = rx.recv().await {
                    match cmd {
                        Cmd::Write(b) => {
                            if wr.write_all(&b).await.is_err() {
                                // peer gone; keep draining commands
                            }
                        }
                        Cmd::Fin => {
                            let _ = wr.shutdown().await;
                        }
                    }
                }
            })
        };
        let c = &mut self.clients[actor];
        c.open = true;
        c.buf = buf;
        c.tx = Some(tx);
        c.reader = Some(reader);
        c.writer = Some(writer);
        c.stop_reading = stop;
        self.log(Rec::Note { msg: format!("client actor={} opened serial={}", actor, serial) });
    }

    pub fn client_send(&mut self, actor: usize, bytes: Vec<u8>) {
        let z = self.clients[actor].buf.lock().z;
        self.clients[actor].z_at_send = z;
        self.log(Rec::CSend { c: actor, bytes: bytes.clone() });
        if let Some(tx) = &self.clients[actor].tx {
            let _ = tx.send(Cmd::Write(bytes));
        }
    }

    pub fn client_close(&mut self, actor: usize, kind: CloseKind) {
        let c = &mut self.clients[actor];
        if !c.open {
            return;
        }
        let k = c.buf.lock().key;
        c.stale_key = k;
        let sl = c.buf.lock().salt;
        if sl.is_some() {
            c.stale_salt = sl;
        }
        match kind {
            CloseKind::HardDrop => {
                c.tx = None;
                if let Some(h) = c.reader.take() {
                    h.abort();
                }
                if let Some(h) = c.writer.take() {
                    h.abort();
                }
                c.open = false;
            }
            CloseKind::Fin => {
                if let Some(tx) = &c.tx {
                    let _ = tx.send(Cmd::Fin);
                }
                // keep reading; mark closed for scripting purposes
                c.open = false;
            }
        }
        self.log(Rec::CClosed { c: actor, kind: format!("{:?}", kind) });
    }

    fn cond_ok(&self, actor: usize, c: &Cond) -> bool {
        match c {
            Cond::Z(n) => self.clients[actor].buf.lock().z >= *n,
            Cond::Msgs(n) => self.clients[actor].buf.lock().msgs.len() >= *n,
            Cond::Closed => self.clients[actor].buf.lock().eof,
            Cond::ZOrClosed(n) => {
                let b = self.clients[actor].buf.lock();
                b.z >= *n || b.eof
            }
            Cond::ActorsDone(v) => v.iter().all(|a| self.idx[*a] >= self.scenario.actors[*a].steps.len()),
            Cond::TimeMs(ms) => pgcat::verif::clock::elapsed().as_millis() as u64 >= *ms,
            Cond::ActorAt(a, n) => self.idx[*a] >= *n,
            Cond::CodeOrClosed(code, n) => {
                let b = self.clients[actor].buf.lock();
                b.eof || b.msgs.iter().filter(|m| m.code == *code).count() >= *n
            }
            Cond::ReplyOrClosed => {
                let b = self.clients[actor].buf.lock();
                b.eof || b.z > self.clients[actor].z_at_send
            }
        }
    }

    /// Advance over satisfied waits; returns true if the actor has an enabled event.
    fn actor_enabled(&mut self, a: usize) -> bool {
        loop {
            let i = self.idx[a];
            let steps = &self.scenario.actors[a].steps;
            if i >= steps.len() {
                return false;
            }
            // a client whose connection was closed by the pooler skips to its next (re)connect
            let eof = self.clients[a].open && self.clients[a].buf.lock().eof;
            match &steps[i] {
                Step::Wait(c) => {
                    let is_client_cond = matches!(c, Cond::Z(_) | Cond::Msgs(_) | Cond::ZOrClosed(_) | Cond::Closed | Cond::CodeOrClosed(..) | Cond::ReplyOrClosed);
                    if self.cond_ok(a, c) {
                        self.idx[a] += 1;
                        continue;
                    }
                    if eof && is_client_cond {
                        self.skip_to_reconnect(a);
                        continue;
                    }
                    return false;
                }
                Step::Send { .. } | Step::SendPassword { .. } | Step::SendDyn(..) | Step::StopReading => {
                    if eof || !self.clients[a].open {
                        self.skip_to_reconnect(a);
                        continue;
                    }
                    return true;
                }
                Step::Close(_) => {
                    if !self.clients[a].open {
                        self.idx[a] += 1;
                        continue;
                    }
                    return true;
                }
                _ => {
                    if self.pending_async.load(Ordering::Relaxed) && matches!(steps[i], Step::Admin(_) | Step::ReloadSighup(_) | Step::WriteConfig(_) | Step::Probe) {
                        return false;
                    }
                    return true;
                }
            }
        }
    }

    fn skip_to_reconnect(&mut self, a: usize) {
        let steps = &self.scenario.actors[a].steps;
        let mut i = self.idx[a];
        while i < steps.len() && !matches!(steps[i], Step::Connect { .. } | Step::Open | Step::Reconnect { .. }) {
            i += 1;
        }
        if self.clients[a].open {
            let k = self.clients[a].buf.lock().key;
            self.clients[a].stale_key = k;
            self.clients[a].open = false;
            self.log(Rec::Note { msg: format!("client actor={} saw EOF, skipping to step {}", a, i) });
        }
        self.idx[a] = i;
    }

    async fn wait_until<F: Fn(&World) -> bool>(&self, f: F, max_ms: u64) -> bool {
        let mut waited = 0u64;
        loop {
            quiesce().await;
            if f(self) {
                return true;
            }
            if waited >= max_ms {
                return false;
            }
            let step = if waited < 20 { 1 } else { 25 };
            tokio::time::sleep(std::time::Duration::from_millis(step)).await;
            waited += step;
        }
    }

    /// Composite login on the actor's (fresh) connection.
    pub async fn login(&mut self, actor: usize, user: &str, db: &str, password: Option<&str>, params: &[(String, String)]) -> bool {
        self.open_client(actor);
        let mut p: Vec<(&str, &str)> = vec![("user", user), ("database", db)];
        for (k, v) in params {
            p.push((k.as_str(), v.as_str()));
        }
        self.client_send(actor, wire::startup(&p));
        let buf = self.clients[actor].buf.clone();
        let b2 = buf.clone();
        self.wait_until(move |_| { let b = b2.lock(); b.salt.is_some() || b.z > 0 || b.eof }, 30_000).await;
        let salt = buf.lock().salt;
        if let (Some(salt), Some(pw)) = (salt, password) {
            if buf.lock().z == 0 {
                self.client_send(actor, wire::password_message(&wire::md5_password_body(user, pw, &salt)));
                let b2 = buf.clone();
                self.wait_until(move |_| { let b = b2.lock(); b.z > 0 || b.eof }, 30_000).await;
            }
        }
        let ok = buf.lock().z > 0;
        ok
    }

    async fn admin_cmd(&mut self, sql: &str) {
        // an admin session that was closed (e.g. a failed RELOAD ends it) is re-established
        if let Some(a) = self.admin {
            if self.clients[a].buf.lock().eof {
                self.clients[a].open = false;
                let ok = self.login(a, "admin_user", "pgcat", Some("admin_pass"), &[]).await;
                if !ok {
                    self.log(Rec::Note { msg: "admin re-login failed".into() });
                }
            }
        }
        let a = match self.admin {
            Some(a) => a,
            None => {
                // the admin connection lives in an extra client slot
                self.clients.push(new_client_rt());
                self.idx.push(usize::MAX);
                let a = self.clients.len() - 1;
                self.admin = Some(a);
                let ok = self.login(a, "admin_user", "pgcat", Some("admin_pass"), &[]).await;
                if !ok {
                    self.log(Rec::Note { msg: "admin login failed".into() });
                }
                a
            }
        };
        let before = self.clients[a].buf.lock().z;
        self.client_send(a, wire::query(sql));
        let buf = self.clients[a].buf.clone();
        let done = self.wait_until(move |_| { let b = buf.lock(); b.z > before || b.eof }, 60_000).await;
        if !done {
            self.log(Rec::Note { msg: format!("admin command did not complete: {}", sql) });
        }
    }

    pub fn write_config(&self, toml: &str) {
        std::fs::write(&self.config_path, toml).expect("write config");
    }

    pub async fn perform(&mut self, actor: usize) {
        let i = self.idx[actor];
        let step = self.scenario.actors[actor].steps[i].clone();
        self.idx[actor] += 1;
        let name = self.scenario.actors[actor].name.clone();
        self.log(Rec::Event { idx: self.events, actor: name, label: step.label() });
        self.events += 1;
        match step {
            Step::Connect { user, db, password, params } => {
                self.login(actor, &user, &db, password.as_deref(), &params).await;
            }
            Step::Open => self.open_client(actor),
            Step::Reconnect { user, db, password } => {
                let alive = self.clients[actor].open && !self.clients[actor].buf.lock().eof;
                if !alive {
                    self.clients[actor].open = false;
                    self.login(actor, &user, &db, password.as_deref(), &[]).await;
                }
            }
            Step::Send { bytes, .. } => self.client_send(actor, bytes),
            Step::SendPassword { user, password } => {
                let salt = self.clients[actor].buf.lock().salt.unwrap_or([0; 4]);
                self.client_send(actor, wire::password_message(&wire::md5_password_body(&user, &password, &salt)));
            }
            Step::SendDyn(_, f) => {
                let salt = self.clients[actor].buf.lock().salt;
                let stale = self.clients[actor].stale_salt;
                self.client_send(actor, f(salt, stale));
            }
            Step::Wait(_) => {}
            Step::Close(k) => self.client_close(actor, k),
            Step::StopReading => self.clients[actor].stop_reading.store(true, Ordering::Relaxed),
            Step::Admin(sql) => self.admin_cmd(&sql).await,
            Step::Advance(ms) => {
                tokio::time::sleep(std::time::Duration::from_millis(ms)).await;
            }
            Step::Call(_, f) => {
                let mut n = self.net.lock();
                f(&mut n);
            }
            Step::KillServerConns(addr) => {
                let kills: Vec<_> = {
                    let n = self.net.lock();
                    n.conns.iter().filter(|c| c.open && c.server == addr).map(|c| c.kill.clone()).collect()
                };
                for k in kills {
                    k.notify_one();
                }
            }
            Step::WriteConfig(v) => {
                let t = self.scenario.alt_tomls[v].clone();
                self.write_config(&t);
            }
            Step::ReloadSighup(v) => {
                let t = self.scenario.alt_tomls[v].clone();
                self.write_config(&t);
                let csm = self.csm.clone();
                let flag = self.pending_async.clone();
                let net = self.net.clone();
                flag.store(true, Ordering::Relaxed);
                tokio::spawn(async move {
                    let r = pgcat::config::reload_config(csm).await;
                    net.lock().push(Rec::Note { msg: format!("reload_config -> {:?}", r) });
                    flag.store(false, Ordering::Relaxed);
                });
            }
            Step::Probe => self.probe(),
            Step::Shutdown => {
                self.admin_only = true;
                let _ = self.shutdown_tx.send(());
            }
            Step::Signal(sig) => {
                let m = self.main.as_ref().expect("Signal step needs opts.main_loop");
                let _ = match sig {
                    "INT" => m.int_tx.send(()),
                    "TERM" => m.term_tx.send(()),
                    "HUP" => m.hup_tx.send(()),
                    _ => panic!("unknown signal"),
                };
            }
            Step::Cancel(k) => {
                let key = match k {
                    CancelKey::OfClient(c) => self.clients[c].buf.lock().key,
                    CancelKey::StaleOfClient(c) => self.clients[c].stale_key,
                    CancelKey::Raw(p, s) => Some((p, s)),
                    CancelKey::PidOnly(c) => self.clients[c].buf.lock().key.map(|(p, s)| (p, s.wrapping_add(1))),
                };
                if let Some((p, s)) = key {
                    self.open_client(actor);
                    self.log(Rec::Note { msg: format!("cancel-request key=({},{})", p, s) });
                    self.client_send(actor, wire::cancel_request(p, s));
                } else {
                    self.log(Rec::Note { msg: "cancel-request: no key available".into() });
                }
            }
        }
    }

    /// Snapshot of pooler-side state through pgcat's public API.
    pub fn probe(&mut self) {
        use std::sync::atomic::Ordering as O;
        let mut pools = Vec::new();
        let mut bans = Vec::new();
        let mut all: Vec<_> = pgcat::pool::get_all_pools().into_iter().collect();
        all.sort_by(|a, b| (a.0.db.clone(), a.0.user.clone()).cmp(&(b.0.db.clone(), b.0.user.clone())));
        for (id, pool) in &all {
            for shard in 0..pool.shards() {
                for server in 0..pool.servers(shard) {
                    let st = pool.pool_state(shard, server);
                    let a = pool.address(shard, server);
                    let astats: std::collections::BTreeMap<String, u64> = (*a.stats).clone().into_iter().filter(|(k, _)| k.starts_with("total_")).collect();
                    pools.push(serde_json::json!({
                        "addr_stats": astats,
                        "db": id.db, "user": id.user, "shard": shard, "server": server,
                        "host": a.host, "role": a.role.to_string(),
                        "connections": st.connections, "idle": st.idle_connections,
                    }));
                }
            }
            for (a, (reason, ts)) in pool.get_bans() {
                bans.push(serde_json::json!({"db": id.db, "user": id.user, "host": a.host, "role": a.role.to_string(), "reason": format!("{:?}", reason),
                    "since_s": ts.timestamp() - pgcat::verif::clock::BASE_EPOCH_SECS, "ban_time": pool.settings.ban_time}));
            }
        }
        let mut servers: Vec<serde_json::Value> = pgcat::stats::get_server_stats()
            .values()
            .map(|s| serde_json::json!({
                "addr": s.address_name(), "pool": s.pool_name(), "user": s.username(),
                "state": s.state.load(O::Relaxed).to_string(),
                "xacts": s.transaction_count.load(O::Relaxed), "queries": s.query_count.load(O::Relaxed),
                "errors": s.error_count.load(O::Relaxed),
                "sent": s.bytes_sent.load(O::Relaxed), "received": s.bytes_received.load(O::Relaxed),
            }))
            .collect();
        servers.sort_by_key(|v| v.to_string());
        let mut clients: Vec<serde_json::Value> = pgcat::stats::get_client_stats()
            .values()
            .map(|c| serde_json::json!({
                "pool": c.pool_name(), "user": c.username(), "app": c.application_name(),
                "state": c.state.load(O::Relaxed).to_string(),
                "xacts": c.transaction_count.load(O::Relaxed), "queries": c.query_count.load(O::Relaxed),
                "errors": c.error_count.load(O::Relaxed),
            }))
            .collect();
        clients.sort_by_key(|v| v.to_string());
        let mut show_pools: Vec<serde_json::Value> = pgcat::stats::pool::PoolStats::construct_pool_lookup()
            .values()
            .map(|p| serde_json::json!({
                "db": p.identifier.db, "user": p.identifier.user,
                "cl_idle": p.cl_idle, "cl_active": p.cl_active, "cl_waiting": p.cl_waiting,
                "sv_active": p.sv_active, "sv_idle": p.sv_idle, "sv_tested": p.sv_tested, "sv_login": p.sv_login,
            }))
            .collect();
        show_pools.sort_by_key(|v| v.to_string());
        let csm = self.csm.lock().len();
        let backends: Vec<serde_json::Value> = {
            let n = self.net.lock();
            n.servers
                .values()
                .map(|s| serde_json::json!({"addr": s.addr, "accept": format!("{:?}", s.accept), "startup": format!("{:?}", s.startup), "faults": s.faults.iter().map(|f| format!("{:?}", f)).collect::<Vec<_>>()}))
                .collect()
        };
        let config_json = serde_json::to_value(pgcat::config::get_config()).map(|v| v.to_string()).unwrap_or_default();
        let config_hash = {
            let mut h = DefaultHasher::new();
            config_json.hash(&mut h);
            h.finish()
        };
        let now_s = pgcat::verif::clock::elapsed().as_secs();
        let now_ms = pgcat::verif::clock::elapsed().as_millis() as u64;
        let data = serde_json::json!({"pools": pools, "bans": bans, "servers": servers, "clients": clients, "show_pools": show_pools, "csm": csm, "backends": backends, "now_s": now_s, "now_ms": now_ms, "config_hash": config_hash.to_string()});
        self.log(Rec::Probe { data: data.to_string() });
    }

    fn state_hash(&self) -> u64 {
        let mut h = DefaultHasher::new();
        self.idx.hash(&mut h);
        for c in &self.clients {
            let b = c.buf.lock();
            (b.msgs.len(), b.z, b.eof, c.open).hash(&mut h);
        }
        let n = self.net.lock();
        for c in &n.conns {
            (c.open, c.msgs_in, c.gated_waiting, c.snap.status, c.snap.in_copy_in, c.snap.stmts.len(), c.snap.unsent).hash(&mut h);
            for (k, v) in c.snap.gucs.iter() {
                (k, v).hash(&mut h);
            }
        }
        for (a, s) in n.servers.iter() {
            (a, s.accept == Accept::Up, s.faults.len()).hash(&mut h);
        }
        h.finish()
    }

    /// The main loop: run the scenario under the schedule.
    pub async fn run(&mut self) {
        let nact = self.scenario.actors.len();
        let mut last: Option<(u8, usize)> = None; // (0 delivery conn | 1 actor, id)
        loop {
            quiesce().await;
            if let Some(m) = &self.main {
                if m.exited.load(Ordering::Relaxed) {
                    // the process is gone: nothing after this point is the pooler's behaviour
                    self.log(Rec::Note { msg: "PROCESS-EXITED".into() });
                    break;
                }
            }
            self.state_hashes.push(self.state_hash());
            if self.scenario.opts.probe_each {
                self.probe();
            }
            if self.events >= self.scenario.opts.max_events {
                self.log(Rec::Note { msg: "event cap reached".into() });
                self.blocked = true;
                break;
            }
            // enabled set in canonical order
            let mut enabled: Vec<(u8, usize)> = Vec::new();
            {
                let n = self.net.lock();
                for c in n.conns.iter() {
                    if c.open && c.gated_waiting > 0 {
                        enabled.push((0, c.id));
                    }
                }
            }
            for a in 0..nact {
                if self.actor_enabled(a) {
                    enabled.push((1, a));
                }
            }
            if let Some(l) = last {
                if let Some(p) = enabled.iter().position(|e| *e == l) {
                    let e = enabled.remove(p);
                    enabled.insert(0, e);
                }
            }
            if enabled.is_empty() {
                let all_done = (0..nact).all(|a| self.idx[a] >= self.scenario.actors[a].steps.len());
                if all_done {
                    break;
                }
                if self.scenario.opts.stuck_advance {
                    let now = pgcat::verif::clock::elapsed().as_millis() as u64;
                    if now < self.scenario.opts.horizon_ms {
                        let step = if now < 2_000 { 20 } else { 250 };
                        tokio::time::sleep(std::time::Duration::from_millis(step)).await;
                        continue;
                    }
                }
                let stuck: Vec<String> = (0..nact)
                    .filter(|a| self.idx[*a] < self.scenario.actors[*a].steps.len())
                    .map(|a| format!("{}@{}:{}", self.scenario.actors[a].name, self.idx[a], self.scenario.actors[a].steps[self.idx[a]].label()))
                    .collect();
                self.log(Rec::Note { msg: format!("BLOCKED-FOREVER {}", stuck.join(" ")) });
                self.blocked = true;
                break;
            }
            let choice = {
                let labels = || -> Vec<String> {
                    enabled
                        .iter()
                        .map(|(k, id)| {
                            if *k == 0 {
                                format!("deliver(conn{})", id)
                            } else {
                                format!("{}:{}", self.scenario.actors[*id].name, self.scenario.actors[*id].steps[self.idx[*id]].label())
                            }
                        })
                        .collect()
                };
                self.sched.lock().choose(enabled.len(), 0, labels)
            };
            let (k, id) = enabled[choice];
            last = Some((k, id));
            if k == 0 {
                let permits = {
                    let n = self.net.lock();
                    n.conns[id].permits.clone()
                };
                self.log(Rec::Event { idx: self.events, actor: format!("conn{}", id), label: "deliver".into() });
                self.events += 1;
                permits.add_permits(1);
            } else {
                self.perform(id).await;
            }
        }
        quiesce().await;
    }
}

fn new_client_rt() -> ClientRt {
    ClientRt {
        open: false,
        buf: Arc::new(Mutex::new(ClientBuf::default())),
        tx: None,
        reader: None,
        writer: None,
        stale_key: None,
        stale_salt: None,
        z_at_send: 0,
        conn_serial: 0,
        stop_reading: Arc::new(AtomicBool::new(false)),
    }
}

/// Install the connector that hands outgoing pooler connections to the reference backend.
pub fn install_connector(net: Shared) {
    pgcat::verif::net::set_connector(Box::new(move |addr: &str| {
        let mut n = net.lock();
        let spec = match n.servers.get(addr) {
            Some(s) => s.clone(),
            None => {
                n.push(Rec::Note { msg: format!("connect to unknown address {} refused", addr) });
                return pgcat::verif::net::ConnectOutcome::Refused;
            }
        };
        match spec.accept {
            Accept::Refuse => {
                n.push(Rec::Note { msg: format!("connect {} refused", addr) });
                pgcat::verif::net::ConnectOutcome::Refused
            }
            Accept::Hang => {
                n.push(Rec::Note { msg: format!("connect {} hangs", addr) });
                pgcat::verif::net::ConnectOutcome::Hang
            }
            Accept::Blackhole => {
                n.push(Rec::Note { msg: format!("connect {} hangs (times out after 127 s)", addr) });
                pgcat::verif::net::ConnectOutcome::TimeoutAfter(std::time::Duration::from_secs(127))
            }
            Accept::Up => {
                let id = n.conns.len();
                let (a, b) = tokio::io::duplex(1 << 20);
                n.conns.push(ConnInfo {
                    id,
                    server: addr.to_string(),
                    label: spec.label.clone(),
                    pid: 7000 + id as i32,
                    key: 0x5EC0_0000u32 as i32 + (id as i32) * 7919,
                    open: true,
                    is_cancel: false,
                    snap: Default::default(),
                    gated_waiting: 0,
                    permits: Arc::new(tokio::sync::Semaphore::new(0)),
                    msgs_in: 0,
                    user: String::new(),
                    database: String::new(),
                    application_name: String::new(),
                    kill: Arc::new(tokio::sync::Notify::new()),
                });
                n.push(Rec::BAccept { conn: id, server: addr.to_string() });
                let net2 = net.clone();
                let addr2 = addr.to_string();
                tokio::spawn(mockpg::serve(net2, id, addr2, b));
                let peer: std::net::SocketAddr = std::net::SocketAddr::from(([10, 1, 0, 1], 5432));
                pgcat::verif::net::ConnectOutcome::Connected(a, peer)
            }
        }
    }));
}

fn factorial(n: usize) -> usize {
    (1..=n).product::<usize>().max(1)
}

fn nth_permutation(n: usize, mut k: usize) -> Vec<usize> {
    let mut items: Vec<usize> = (0..n).collect();
    let mut out = Vec::with_capacity(n);
    for i in (1..=n).rev() {
        let f = factorial(i - 1);
        let j = k / f;
        k %= f;
        out.push(items.remove(j));
    }
    out
}

pub struct Outcome {
    pub log: Vec<Entry>,
    pub points: Vec<Point>,
    pub diverged: Option<String>,
    pub state_hashes: Vec<u64>,
    pub blocked: bool,
    pub events: usize,
    pub final_ms: u64,
    pub init_error: Option<String>,
}

/// Run one scenario under one schedule prefix, on a fresh runtime. Must be
/// called in a fresh process (pgcat keeps process-global state).
pub fn run_scenario(sc: &Scenario, prefix: &[u32], expect_n: &[u32], config_path: &str) -> Outcome {
    let rt = tokio::runtime::Builder::new_current_thread()
        .enable_all()
        .start_paused(true)
        .rng_seed(tokio::runtime::RngSeed::from_bytes(&sc.opts.seed.to_le_bytes()))
        .build()
        .expect("runtime");
    let sched = Arc::new(Mutex::new(Sched {
        prefix: prefix.to_vec(),
        expect_n: expect_n.to_vec(),
        points: vec![],
        diverged: None,
        trace: sc.opts.trace,
    }));
    let net: Shared = Arc::new(Mutex::new(Net::new()));
    let out = rt.block_on(async {
        pgcat::verif::clock::init();
        {
            let mut n = net.lock();
            n.start = Some(tokio::time::Instant::now());
            for s in &sc.servers {
                n.servers.insert(s.addr.clone(), s.clone());
            }
        }
        install_connector(net.clone());
        {
            let sched = sched.clone();
            let explore = sc.opts.explore_perms;
            pgcat::verif::choice::set_chooser(Box::new(move |cands| {
                let n = cands.len();
                if !explore || n < 2 || n > 4 {
                    return (0..n).collect();
                }
                let labels = || (0..factorial(n)).map(|k| format!("perm{:?}", nth_permutation(n, k))).collect();
                let k = sched.lock().choose(factorial(n), 1, labels);
                nth_permutation(n, k)
            }));
        }
        {
            let sched = sched.clone();
            pgcat::verif::choice::set_shard_chooser(Box::new(move |n| {
                if n < 2 {
                    return 0;
                }
                let labels = || (0..n).map(|k| format!("any-shard={}", k)).collect();
                sched.lock().choose(n, 2, labels)
            }));
        }
        pgcat::query_router::QueryRouter::setup();
        std::fs::write(config_path, &sc.toml).expect("write config");
        let csm: pgcat::pool::ClientServerMap = Arc::new(Mutex::new(std::collections::HashMap::new()));
        // startup runs in its own task so that a panic in config handling is an observation, not a harness crash
        let init_error = {
            let csm2 = csm.clone();
            let path = config_path.to_string();
            let skip = sc.opts.skip_pool_init;
            let h = tokio::spawn(async move {
                match pgcat::config::parse(&path).await {
                    Ok(()) => {
                        if !skip {
                            pgcat::pool::ConnectionPool::from_config(csm2).await.map_err(|e| format!("from_config: {:?}", e))
                        } else {
                            Ok(())
                        }
                    }
                    Err(e) => Err(format!("parse: {:?}", e)),
                }
            });
            match h.await {
                Ok(Ok(())) => None,
                Ok(Err(e)) => Some(e),
                Err(e) => {
                    let m = if e.is_panic() {
                        let p = e.into_panic();
                        if let Some(s) = p.downcast_ref::<String>() {
                            s.clone()
                        } else if let Some(s) = p.downcast_ref::<&str>() {
                            s.to_string()
                        } else {
                            "panic".to_string()
                        }
                    } else {
                        "cancelled".to_string()
                    };
                    net.lock().push(Rec::Panic { msg: format!("startup: {}", m) });
                    Some(format!("PANIC during startup: {}", m))
                }
            }
        };
        let (shutdown_tx, _) = tokio::sync::broadcast::channel::<()>(1);
        let (drain_tx, mut drain_rx) = mpsc::channel::<i32>(2048);
        {
            let net = net.clone();
            tokio::spawn(async move {
                while let Some(v) = drain_rx.recv().await {
                    net.lock().push(Rec::Note { msg: format!("drain {}", v) });
                }
            });
        }
        let main = if sc.opts.main_loop && init_error.is_none() {
            let (accept_tx, accept_rx) = mpsc::unbounded_channel();
            let (int_tx, int_rx) = mpsc::unbounded_channel();
            let (term_tx, term_rx) = mpsc::unbounded_channel();
            let (hup_tx, hup_rx) = mpsc::unbounded_channel();
            let exited = Arc::new(AtomicBool::new(false));
            {
                // the admin SHUTDOWN command sends SIGINT to the pooler's own process
                let int_tx = int_tx.clone();
                let net = net.clone();
                pgcat::verif::signal::set_handler(Box::new(move |sig| {
                    net.lock().push(Rec::Note { msg: format!("SIGNAL-RAISED {:?} by the pooler itself", sig) });
                    match sig {
                        pgcat::verif::signal::Signal::SIGINT => int_tx.send(()).is_ok(),
                        _ => false,
                    }
                }));
            }
            let exited2 = exited.clone();
            let net2 = net.clone();
            let csm2 = csm.clone();
            tokio::spawn(async move {
                use crate::mainloop::{extracted_main_loop, Listener, SignalRx};
                extracted_main_loop(
                    Listener { rx: accept_rx },
                    SignalRx { rx: hup_rx },
                    SignalRx { rx: int_rx },
                    SignalRx { rx: term_rx },
                    csm2,
                    pgcat::config::get_config(),
                )
                .await;
                // the process is gone from this instant: tasks woken by the loop's teardown write nothing
                pgcat::verif::net::set_process_gone();
                net2.lock().push(Rec::Note { msg: "MAIN-LOOP-EXIT".into() });
                exited2.store(true, Ordering::Relaxed);
            });
            Some(MainCtl { accept_tx, int_tx, term_tx, hup_tx, exited })
        } else {
            None
        };
        let nact = sc.actors.len();
        let mut w = World {
            net: net.clone(),
            sched: sched.clone(),
            csm,
            shutdown_tx,
            drain_tx,
            admin_only: false,
            clients: (0..nact).map(|_| new_client_rt()).collect(),
            idx: vec![0; nact],
            scenario: sc.clone(),
            config_path: config_path.to_string(),
            admin: None,
            state_hashes: vec![],
            events: 0,
            blocked: false,
            pending_async: Arc::new(AtomicBool::new(false)),
            tasks_alive: Arc::new(Mutex::new(vec![])),
            main,
        };
        let _ = w.client_index(0);
        if let Some(e) = &init_error {
            w.log(Rec::Note { msg: format!("INIT-ERROR {}", e) });
        } else {
            w.run().await;
        }
        let final_ms = pgcat::verif::clock::elapsed().as_millis() as u64;
        let log = std::mem::take(&mut net.lock().log);
        let s = sched.lock();
        Outcome {
            log,
            points: s.points.clone(),
            diverged: s.diverged.clone(),
            state_hashes: w.state_hashes.clone(),
            blocked: w.blocked,
            events: w.events,
            final_ms,
            init_error,
        }
    });
    // do not run destructors of the runtime's tasks in any particular order: the process exits next
    std::mem::forget(rt);
    out
}

/// Render the log for humans (replay output).
pub fn render(log: &[Entry]) -> String {
    let mut s = String::new();
    for e in log {
        let line = match &e.rec {
            Rec::Event { idx, actor, label } => format!("== event {} {}: {}", idx, actor, label),
            Rec::CSend { c, bytes } => {
                let (msgs, used, _) = wire::split_stream(bytes);
                if used == bytes.len() && !msgs.is_empty() {
                    format!("   C{} -> {}", c, msgs.iter().map(wire::describe_msg).collect::<Vec<_>>().join(" "))
                } else {
                    format!("   C{} -> raw[{}]", c, wire::hex(bytes))
                }
            }
            Rec::CRecv { c, msg } => format!("   C{} <- {}", c, wire::describe_msg(msg)),
            Rec::CEof { c } => format!("   C{} <- EOF", c),
            Rec::CClosed { c, kind } => format!("   C{} closes ({})", c, kind),
            Rec::BAccept { conn, server } => format!("      B{} accepted on {}", conn, server),
            Rec::BStartup { conn, params } => format!("      B{} startup {:?}", conn, params),
            Rec::BCancel { conn, server, pid, key } => format!("      B{} CANCEL on {} pid={} key={}", conn, server, pid, key),
            Rec::BRecv { conn, msg, st } => format!(
                "      B{} <- {}   [st={} copy={} stmts={:?} dirty={:?} role={}]",
                conn,
                wire::describe_msg(msg),
                st.status as char,
                st.in_copy_in,
                st.stmts.keys().collect::<Vec<_>>(),
                st.dirty_gucs(),
                st.role
            ),
            Rec::BExec { conn, sql, via, .. } => format!("      B{} exec[{}] {}", conn, *via as char, sql),
            Rec::BSend { conn, bytes } => {
                let (msgs, used, _) = wire::split_stream(bytes);
                if used == bytes.len() {
                    format!("      B{} -> {}", conn, msgs.iter().map(wire::describe_msg).collect::<Vec<_>>().join(" "))
                } else {
                    format!("      B{} -> {} bytes (partial framing)", conn, bytes.len())
                }
            }
            Rec::BClose { conn, by } => format!("      B{} closed by {}", conn, by),
            Rec::Panic { msg } => format!("!! PANIC {}", msg),
            Rec::Note { msg } => format!("   # {}", msg),
            Rec::Probe { data } => format!("   # PROBE {}", data),
        };
        s.push_str(&format!("{:>5} {:>7}ms {}\n", e.seq, e.t_ms, line));
    }
    s
}
