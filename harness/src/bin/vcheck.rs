use std::time::Instant;
use vharness::explore;
use vharness::props;
use vharness::report::{self, Part};

fn arg_after(args: &[String], key: &str) -> Option<String> {
    args.iter().position(|a| a == key).and_then(|i| args.get(i + 1).cloned())
}

fn main() {
    let args: Vec<String> = std::env::args().collect();
    if args.len() < 2 {
        eprintln!("usage: vcheck run <Cxx> [--tier quick|thorough] | replay <file> | list");
        std::process::exit(2);
    }
    let tier = arg_after(&args, "--tier").or_else(|| std::env::var("VERIF_TIER").ok()).unwrap_or_else(|| "quick".into());
    let seed: i64 = std::env::var("VERIF_SEED").ok().and_then(|s| s.parse().ok()).unwrap_or(1);
    match args[1].as_str() {
        "run" => {
            let id = args[2].clone();
            let t0 = Instant::now();
            let parts = run_property(&id, &tier, seed);
            let code = report::finish(&id, &tier, seed, parts, t0.elapsed().as_secs_f64());
            std::process::exit(code);
        }
        "replay" => {
            let path = args[2].clone();
            let data = std::fs::read_to_string(&path).expect("read replay file");
            let v: serde_json::Value = serde_json::from_str(&data).expect("parse replay");
            let engine = v["engine"].as_str().unwrap_or("sim");
            if engine != "sim" {
                println!("replay for engine {}: {}", engine, serde_json::to_string_pretty(&v).unwrap());
                println!("(re-run the check; enum-engine findings are single inputs printed above)");
                return;
            }
            let id = v["property"].as_str().unwrap().to_string();
            let tier = v["tier"].as_str().unwrap_or("quick").to_string();
            let name = v["scenario"].as_str().unwrap().to_string();
            let choices: Vec<u32> = v["choices"].as_array().unwrap().iter().map(|x| x.as_u64().unwrap() as u32).collect();
            let chk = props::sim_check(&id, &tier, seed).expect("no sim check for property");
            let sc = chk.scenarios.iter().find(|s| s.name == name).expect("scenario not found in this tier");
            let mut rs = explore::run_n(sc, &*chk.oracle, &choices, 2);
            let r2 = rs.pop().flatten().expect("execution failed");
            let r1 = rs.pop().flatten().expect("execution failed");
            println!("scenario: {}", name);
            println!("choices: {:?}", choices);
            println!("{}", r1.trace.clone().unwrap_or_default());
            for (i, p) in r1.points.iter().enumerate() {
                println!("choice {}: {} of {:?}", i, p.chosen, p.labels);
            }
            for p in &r1.panics {
                println!("task panic: {}", p);
            }
            for v in &r1.violations {
                println!("VIOLATION oracle={} sig={}\n  {}", v.oracle, v.sig, v.detail);
            }
            if r1.outcome_hash != r2.outcome_hash {
                let _ = std::fs::write("/verif/.replay_a.txt", r1.trace.clone().unwrap_or_default());
                let _ = std::fs::write("/verif/.replay_b.txt", r2.trace.clone().unwrap_or_default());
                println!("MACHINERY-ERROR: two replays of the same schedule differ (traces in /verif/.replay_a.txt, /verif/.replay_b.txt)");
                std::process::exit(2);
            }
            println!("replayed twice: identical observations; {} violation(s)", r1.violations.len());
            std::process::exit(if r1.violations.is_empty() { 0 } else { 1 });
        }
        "trace" => {
            // trace <Cxx> <scenario-substring-or-index> [c0,c1,...]
            let id = args[2].clone();
            let chk = props::sim_check(&id, &tier, seed).expect("no sim check");
            let sel = args[3].clone();
            let sc = match sel.parse::<usize>() {
                Ok(i) => &chk.scenarios[i],
                Err(_) => chk.scenarios.iter().find(|s| s.name.contains(&sel)).expect("no such scenario"),
            };
            let choices: Vec<u32> = args.get(4).filter(|a| !a.starts_with("--")).map(|c| c.split(',').filter(|x| !x.is_empty()).map(|x| x.parse().unwrap()).collect()).unwrap_or_default();
            let r = explore::run_single(sc, &*chk.oracle, &choices).expect("execution failed");
            println!("scenario: {}", sc.name);
            println!("{}", r.trace.clone().unwrap_or_default());
            for (i, p) in r.points.iter().enumerate() {
                println!("choice {}: {} of {:?}", i, p.chosen, p.labels);
            }
            println!("blocked={} events={} final_ms={} init_error={:?} diverged={:?} crashed={:?}", r.blocked, r.events, r.final_ms, r.init_error, r.diverged, r.crashed);
            for p in &r.panics {
                println!("task panic: {}", p);
            }
            for v in &r.violations {
                println!("VIOLATION oracle={} sig={}\n  {}", v.oracle, v.sig, v.detail);
            }
        }
        "list" => {
            let id = args[2].clone();
            let chk = props::sim_check(&id, &tier, seed).expect("no sim check");
            for (i, s) in chk.scenarios.iter().enumerate() {
                println!("{} {}", i, s.name);
            }
        }
        _ => {
            eprintln!("unknown command");
            std::process::exit(2);
        }
    }
}

fn run_property(id: &str, tier: &str, seed: i64) -> Vec<Part> {
    let mut parts = Vec::new();
    if let Some(mut chk) = props::sim_check(id, tier, seed) {
        if let Ok(only) = std::env::var("VERIF_ONLY") {
            chk.scenarios.retain(|s| s.name.contains(&only));
            eprintln!("[sim] VERIF_ONLY={:?}: {} scenarios kept (debugging aid, not a verdict)", only, chk.scenarios.len());
        }
        let mut limits = chk.limits;
        if let Ok(w) = std::env::var("VERIF_WORKERS") {
            limits.workers = w.parse().unwrap_or(limits.workers);
        }
        let rep = explore::explore(&chk.scenarios, &*chk.oracle, chk.bound, &limits);
        eprintln!(
            "[sim] {} scenarios, {} executions ({:?} by deviations), {} states, {} transitions, {} outcomes, {:.1}s, pruned {} caps {:?}",
            rep.scenarios,
            rep.executions,
            rep.by_devs,
            rep.states.len(),
            rep.transitions.len(),
            rep.outcomes.len(),
            rep.wall_s,
            rep.pruned_by_bound,
            rep.caps_hit
        );
        parts.push(Part::from_sim(id, tier, &rep, &chk.rule, &chk.assumptions));
    }
    parts.extend(props::other_parts(id, tier, seed));
    if parts.is_empty() {
        eprintln!("no check registered for {}", id);
        std::process::exit(2);
    }
    parts
}
