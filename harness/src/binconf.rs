//! Trace conformance of the sim's C17 world against the real `pgcat` binary.
//!
//! The sim runs the real main-loop text, but with stand-ins for the listener, the unix signal streams
//! and "process exit". This part replays the sim's own default-schedule traces on the real binary
//! (built from /repo's working tree with the hooks OFF) over loopback TCP with real signals, and
//! compares what both observed: admissions, administrator-command errors, answered requests per client,
//! whether / when the process exited and its exit status. Timing inside a step is free-running: this is
//! conformance of traces, not exploration.

use crate::explore::{run_n, Violation};
use crate::props::c17;
use crate::report::Part;
use crate::world::{Outcome, Scenario};
use serde_json::{json, Value};
use std::process::Command;

const WORK: &str = "/verif/.binconf";
const TARGET: &str = "/verif/.target-bin";

pub fn run(tier: &str) -> Part {
    let mut part = Part { engine: "binconf".into(), exhaustive: true, ..Default::default() };
    part.rule = "every C17 scenario whose default-schedule outcome does not hinge on the order of two events in one instant (all client programs x signal patterns with an admin client; thorough: every pair under SIGINT / SHUTDOWN) is first run in the sim, then replayed on the real binary (hooks off, loopback TCP, python PostgreSQL stand-in, real kill(2) / admin SHUTDOWN, times scaled x2); compared: per client admitted?, administrator-command error?, number of answered requests; exit happened?, exit status 0, exit instant relative to the first SIGINT/SIGTERM (+-350 ms); scenarios are replayed in parallel and real time is not owned by the replayer, so a difference counts only if it reproduces with the scenario run alone (two more attempts; the number of such re-runs is in the evidence)".into();
    part.assumptions = vec!["free-running timing inside a step; events are >= 120 ms of real time apart".into()];
    // 1. the binary, from /repo's working tree, hooks off
    let build = Command::new("cargo")
        .args(["build", "--release", "--offline", "--bin", "pgcat"])
        .current_dir("/repo")
        .env("CARGO_TARGET_DIR", TARGET)
        .env("CARGO_NET_OFFLINE", "true")
        .env_remove("RUSTFLAGS")
        .output();
    match build {
        Ok(o) if o.status.success() => {}
        Ok(o) => {
            part.machinery_errors.push(format!("binconf: building the pgcat binary failed: {}", String::from_utf8_lossy(&o.stderr).lines().filter(|l| l.starts_with("error")).take(3).collect::<Vec<_>>().join(" | ")));
            return part;
        }
        Err(e) => {
            part.machinery_errors.push(format!("binconf: cargo: {}", e));
            return part;
        }
    }
    // 2. the sim's traces and observations
    let scenarios: Vec<Scenario> = c17::conformance_scenarios(tier);
    let export = |sc: &Scenario, out: &Outcome| -> Vec<Violation> { vec![Violation { oracle: "EXPORT".into(), sig: "EXPORT".into(), detail: c17::abstract_obs(sc, out).to_string() }] };
    let mut items: Vec<Value> = Vec::new();
    for sc in &scenarios {
        let r = run_n(sc, &export, &[], 1).pop().flatten();
        let obs = r.as_ref().and_then(|r| r.violations.first()).and_then(|v| serde_json::from_str::<Value>(&v.detail).ok());
        match obs {
            Some(o) => {
                let mut item = c17::export_scenario(sc);
                item["expected"] = o;
                items.push(item);
            }
            None => part.machinery_errors.push(format!("binconf: no sim observation for {}", sc.name)),
        }
    }
    let _ = std::fs::remove_dir_all(WORK);
    let _ = std::fs::create_dir_all(WORK);
    let file = format!("{}/scenarios.json", WORK);
    std::fs::write(&file, serde_json::to_vec(&items).unwrap()).expect("write scenarios");
    // 3. replay
    let out = Command::new("python3").args(["/verif/binconf/c17_replay.py", &format!("{}/release/pgcat", TARGET), &file, &format!("{}/run", WORK)]).output();
    let out = match out {
        Ok(o) if o.status.success() => o,
        Ok(o) => {
            part.machinery_errors.push(format!("binconf: replayer failed: {}", String::from_utf8_lossy(&o.stderr).lines().rev().take(3).collect::<Vec<_>>().join(" | ")));
            return part;
        }
        Err(e) => {
            part.machinery_errors.push(format!("binconf: python3: {}", e));
            return part;
        }
    };
    let results: Vec<Value> = match serde_json::from_slice(&out.stdout) {
        Ok(v) => v,
        Err(e) => {
            part.machinery_errors.push(format!("binconf: cannot parse replayer output: {}", e));
            return part;
        }
    };
    let mut ok = 0u64;
    let mut rerun = 0u64;
    for (i, r) in results.iter().enumerate() {
        if r.get("conformed_on_isolated_rerun").is_some() {
            rerun += 1;
        }
        if let Some(e) = r.get("error").and_then(|e| e.as_str()) {
            part.machinery_errors.push(format!("binconf: {}: {}", r["name"].as_str().unwrap_or(""), e));
            continue;
        }
        if r["ok"].as_bool().unwrap_or(false) {
            ok += 1;
            if part.samples.len() < 4 {
                part.samples.push(json!({"scenario": r["name"], "binary_observed": r["observed"]}));
            }
            continue;
        }
        let diffs: Vec<String> = r["diffs"].as_array().map(|a| a.iter().map(|d| d.as_str().unwrap_or("").to_string()).collect()).unwrap_or_default();
        if diffs.first().map(|d| d.starts_with("pgcat did not start")).unwrap_or(false) {
            part.machinery_errors.push(format!("binconf: {}: {}", r["name"].as_str().unwrap_or(""), diffs[0]));
            continue;
        }
        let first = diffs.first().cloned().unwrap_or_default();
        let kind = if first.starts_with("client ") {
            first.split_whitespace().nth(2).unwrap_or("client").trim_end_matches(':').to_string()
        } else if first.starts_with("exit happened") {
            "exit-happened".to_string()
        } else if first.starts_with("exit status") {
            "exit-status".to_string()
        } else if first.starts_with("exit instant") {
            "exit-instant".to_string()
        } else {
            "other".to_string()
        };
        let name = r["name"].as_str().unwrap_or("").to_string();
        let sigpat = name.split("signal=").nth(1).unwrap_or("").to_string();
        let v = Violation {
            oracle: "C17.conformance".into(),
            sig: format!("C17.conformance:{}:signal={}", kind, sigpat),
            detail: format!("the real binary behaves differently from the sim on `{}`: {}", name, diffs.join("; ")),
        };
        let replay = json!({"engine": "binconf", "property": "C17", "violation": v, "scenario": items.get(i), "replay": "python3 /verif/binconf/c17_replay.py /verif/.target-bin/release/pgcat <file with this one scenario in a list> /verif/.binconf/one"});
        part.violations.push((v, replay, 1));
    }
    part.traces = results.len() as u64;
    part.evaluations = results.len() as u64;
    part.states = results.len() as u64;
    part.transitions = results.len() as u64;
    part.distinct = ok;
    part.extra.insert("traces_replayed_on_binary".into(), json!(results.len()));
    part.extra.insert("traces_conforming".into(), json!(ok));
    part.extra.insert("traces_conforming_only_when_rerun_alone".into(), json!(rerun));
    part
}
