//! Independent PostgreSQL v3 wire codec used by the reference backend, the
//! scripted clients and the oracles. Written from the protocol documentation,
//! not from pgcat's messages.rs.

use md5::{Digest, Md5};

pub fn msg(code: u8, body: &[u8]) -> Vec<u8> {
    let mut v = Vec::with_capacity(body.len() + 5);
    v.push(code);
    v.extend_from_slice(&((body.len() as i32 + 4).to_be_bytes()));
    v.extend_from_slice(body);
    v
}

fn cstr(v: &mut Vec<u8>, s: &[u8]) {
    v.extend_from_slice(s);
    v.push(0);
}

// ---------- frontend ----------

pub fn startup(params: &[(&str, &str)]) -> Vec<u8> {
    let mut b = Vec::new();
    b.extend_from_slice(&196608i32.to_be_bytes());
    for (k, v) in params {
        cstr(&mut b, k.as_bytes());
        cstr(&mut b, v.as_bytes());
    }
    b.push(0);
    let mut out = ((b.len() as i32 + 4).to_be_bytes()).to_vec();
    out.extend_from_slice(&b);
    out
}

pub fn ssl_request() -> Vec<u8> {
    let mut out = 8i32.to_be_bytes().to_vec();
    out.extend_from_slice(&80877103i32.to_be_bytes());
    out
}

pub fn cancel_request(pid: i32, key: i32) -> Vec<u8> {
    let mut out = 16i32.to_be_bytes().to_vec();
    out.extend_from_slice(&80877102i32.to_be_bytes());
    out.extend_from_slice(&pid.to_be_bytes());
    out.extend_from_slice(&key.to_be_bytes());
    out
}

pub fn md5_hex(data: &[u8]) -> String {
    let mut h = Md5::new();
    h.update(data);
    format!("{:x}", h.finalize())
}

/// "md5" + md5(md5(password + user) + salt), NUL-terminated, as PasswordMessage body.
pub fn md5_password_body(user: &str, password: &str, salt: &[u8]) -> Vec<u8> {
    let inner = md5_hex(format!("{}{}", password, user).as_bytes());
    md5_password_body_from_hash(&inner, salt)
}

pub fn md5_password_body_from_hash(inner_hex: &str, salt: &[u8]) -> Vec<u8> {
    let mut d = inner_hex.as_bytes().to_vec();
    d.extend_from_slice(salt);
    let mut out = format!("md5{}", md5_hex(&d)).into_bytes();
    out.push(0);
    out
}

pub fn password_message(body: &[u8]) -> Vec<u8> {
    msg(b'p', body)
}

pub fn query(sql: &str) -> Vec<u8> {
    let mut b = sql.as_bytes().to_vec();
    b.push(0);
    msg(b'Q', &b)
}

pub fn parse(name: &str, sql: &str, types: &[i32]) -> Vec<u8> {
    let mut b = Vec::new();
    cstr(&mut b, name.as_bytes());
    cstr(&mut b, sql.as_bytes());
    b.extend_from_slice(&(types.len() as i16).to_be_bytes());
    for t in types {
        b.extend_from_slice(&t.to_be_bytes());
    }
    msg(b'P', &b)
}

/// params: None = NULL. formats: per-parameter format codes (may be empty = all text).
pub fn bind(
    portal: &str,
    stmt: &str,
    formats: &[i16],
    params: &[Option<Vec<u8>>],
    result_formats: &[i16],
) -> Vec<u8> {
    let mut b = Vec::new();
    cstr(&mut b, portal.as_bytes());
    cstr(&mut b, stmt.as_bytes());
    b.extend_from_slice(&(formats.len() as i16).to_be_bytes());
    for f in formats {
        b.extend_from_slice(&f.to_be_bytes());
    }
    b.extend_from_slice(&(params.len() as i16).to_be_bytes());
    for p in params {
        match p {
            None => b.extend_from_slice(&(-1i32).to_be_bytes()),
            Some(v) => {
                b.extend_from_slice(&(v.len() as i32).to_be_bytes());
                b.extend_from_slice(v);
            }
        }
    }
    b.extend_from_slice(&(result_formats.len() as i16).to_be_bytes());
    for f in result_formats {
        b.extend_from_slice(&f.to_be_bytes());
    }
    msg(b'B', &b)
}

pub fn describe(kind: u8, name: &str) -> Vec<u8> {
    let mut b = vec![kind];
    cstr(&mut b, name.as_bytes());
    msg(b'D', &b)
}

pub fn execute(portal: &str, max_rows: i32) -> Vec<u8> {
    let mut b = Vec::new();
    cstr(&mut b, portal.as_bytes());
    b.extend_from_slice(&max_rows.to_be_bytes());
    msg(b'E', &b)
}

pub fn close(kind: u8, name: &str) -> Vec<u8> {
    let mut b = vec![kind];
    cstr(&mut b, name.as_bytes());
    msg(b'C', &b)
}

pub fn sync() -> Vec<u8> {
    msg(b'S', &[])
}
pub fn flush() -> Vec<u8> {
    msg(b'H', &[])
}
pub fn terminate() -> Vec<u8> {
    msg(b'X', &[])
}
pub fn copy_data(d: &[u8]) -> Vec<u8> {
    msg(b'd', d)
}
pub fn copy_done() -> Vec<u8> {
    msg(b'c', &[])
}
pub fn copy_fail(m: &str) -> Vec<u8> {
    let mut b = m.as_bytes().to_vec();
    b.push(0);
    msg(b'f', &b)
}

// ---------- backend ----------

pub fn auth_ok() -> Vec<u8> {
    msg(b'R', &0i32.to_be_bytes())
}
pub fn auth_md5(salt: [u8; 4]) -> Vec<u8> {
    let mut b = 5i32.to_be_bytes().to_vec();
    b.extend_from_slice(&salt);
    msg(b'R', &b)
}
pub fn parameter_status(k: &str, v: &str) -> Vec<u8> {
    let mut b = Vec::new();
    cstr(&mut b, k.as_bytes());
    cstr(&mut b, v.as_bytes());
    msg(b'S', &b)
}
pub fn backend_key_data(pid: i32, key: i32) -> Vec<u8> {
    let mut b = pid.to_be_bytes().to_vec();
    b.extend_from_slice(&key.to_be_bytes());
    msg(b'K', &b)
}
pub fn ready(status: u8) -> Vec<u8> {
    msg(b'Z', &[status])
}
pub fn row_description(cols: &[&str]) -> Vec<u8> {
    let mut b = (cols.len() as i16).to_be_bytes().to_vec();
    for c in cols {
        cstr(&mut b, c.as_bytes());
        b.extend_from_slice(&0i32.to_be_bytes());
        b.extend_from_slice(&0i16.to_be_bytes());
        b.extend_from_slice(&25i32.to_be_bytes());
        b.extend_from_slice(&(-1i16).to_be_bytes());
        b.extend_from_slice(&(-1i32).to_be_bytes());
        b.extend_from_slice(&0i16.to_be_bytes());
    }
    msg(b'T', &b)
}
pub fn data_row(cols: &[&[u8]]) -> Vec<u8> {
    let mut b = (cols.len() as i16).to_be_bytes().to_vec();
    for c in cols {
        b.extend_from_slice(&(c.len() as i32).to_be_bytes());
        b.extend_from_slice(c);
    }
    msg(b'D', &b)
}
pub fn command_complete(tag: &str) -> Vec<u8> {
    let mut b = tag.as_bytes().to_vec();
    b.push(0);
    msg(b'C', &b)
}
pub fn error_response(severity: &str, code: &str, message: &str) -> Vec<u8> {
    let mut b = Vec::new();
    b.push(b'S');
    cstr(&mut b, severity.as_bytes());
    b.push(b'V');
    cstr(&mut b, severity.as_bytes());
    b.push(b'C');
    cstr(&mut b, code.as_bytes());
    b.push(b'M');
    cstr(&mut b, message.as_bytes());
    b.push(0);
    msg(b'E', &b)
}
pub fn notice_response(message: &str) -> Vec<u8> {
    let mut b = Vec::new();
    b.push(b'S');
    cstr(&mut b, b"NOTICE");
    b.push(b'V');
    cstr(&mut b, b"NOTICE");
    b.push(b'C');
    cstr(&mut b, b"00000");
    b.push(b'M');
    cstr(&mut b, message.as_bytes());
    b.push(0);
    msg(b'N', &b)
}
pub fn empty_query() -> Vec<u8> {
    msg(b'I', &[])
}
pub fn parse_complete() -> Vec<u8> {
    msg(b'1', &[])
}
pub fn bind_complete() -> Vec<u8> {
    msg(b'2', &[])
}
pub fn close_complete() -> Vec<u8> {
    msg(b'3', &[])
}
pub fn no_data() -> Vec<u8> {
    msg(b'n', &[])
}
pub fn portal_suspended() -> Vec<u8> {
    msg(b's', &[])
}
pub fn parameter_description(types: &[i32]) -> Vec<u8> {
    let mut b = (types.len() as i16).to_be_bytes().to_vec();
    for t in types {
        b.extend_from_slice(&t.to_be_bytes());
    }
    msg(b't', &b)
}
pub fn copy_in_response() -> Vec<u8> {
    msg(b'G', &[0, 0, 0])
}
pub fn copy_out_response() -> Vec<u8> {
    msg(b'H', &[0, 0, 0])
}

// ---------- decoding ----------

/// One framed message: type byte + body (without length).
#[derive(Clone, Debug, PartialEq, Eq)]
pub struct Msg {
    pub code: u8,
    pub body: Vec<u8>,
}

impl Msg {
    pub fn encode(&self) -> Vec<u8> {
        msg(self.code, &self.body)
    }
    pub fn cstr_at(&self, off: usize) -> Option<(String, usize)> {
        let rest = self.body.get(off..)?;
        let n = rest.iter().position(|b| *b == 0)?;
        Some((String::from_utf8_lossy(&rest[..n]).to_string(), off + n + 1))
    }
    /// For ErrorResponse / NoticeResponse: field value by code.
    pub fn err_field(&self, f: u8) -> Option<String> {
        let mut i = 0;
        while i < self.body.len() && self.body[i] != 0 {
            let code = self.body[i];
            let (s, next) = self.cstr_at(i + 1)?;
            if code == f {
                return Some(s);
            }
            i = next;
        }
        None
    }
    /// DataRow columns.
    pub fn row_cols(&self) -> Vec<Option<Vec<u8>>> {
        let mut out = Vec::new();
        if self.body.len() < 2 {
            return out;
        }
        let n = i16::from_be_bytes([self.body[0], self.body[1]]);
        let mut i = 2;
        for _ in 0..n {
            if i + 4 > self.body.len() {
                break;
            }
            let l = i32::from_be_bytes(self.body[i..i + 4].try_into().unwrap());
            i += 4;
            if l < 0 {
                out.push(None);
            } else {
                let l = l as usize;
                if i + l > self.body.len() {
                    break;
                }
                out.push(Some(self.body[i..i + l].to_vec()));
                i += l;
            }
        }
        out
    }
    pub fn text(&self) -> String {
        String::from_utf8_lossy(&self.body).trim_end_matches('\0').to_string()
    }
}

/// Split a byte stream of typed messages; returns (messages, leftover bytes).
/// A length < 4 yields `Err` with the messages decoded so far.
pub fn split_stream(buf: &[u8]) -> (Vec<Msg>, usize, bool) {
    let mut out = Vec::new();
    let mut i = 0;
    loop {
        if buf.len() - i < 5 {
            return (out, i, true);
        }
        let len = i32::from_be_bytes(buf[i + 1..i + 5].try_into().unwrap());
        if len < 4 {
            return (out, i, false);
        }
        let len = len as usize;
        if buf.len() - i < 1 + len {
            return (out, i, true);
        }
        out.push(Msg {
            code: buf[i],
            body: buf[i + 5..i + 1 + len].to_vec(),
        });
        i += 1 + len;
    }
}

/// Decoded Parse.
#[derive(Clone, Debug, PartialEq, Eq)]
pub struct ParseMsg {
    pub name: String,
    pub query: String,
    pub types: Vec<i32>,
}

pub fn decode_parse(m: &Msg) -> Option<ParseMsg> {
    let (name, o) = m.cstr_at(0)?;
    let (query, o) = m.cstr_at(o)?;
    let n = i16::from_be_bytes(m.body.get(o..o + 2)?.try_into().ok()?);
    let mut types = Vec::new();
    let mut p = o + 2;
    for _ in 0..n.max(0) {
        types.push(i32::from_be_bytes(m.body.get(p..p + 4)?.try_into().ok()?));
        p += 4;
    }
    Some(ParseMsg { name, query, types })
}

/// Decoded Bind: (portal, statement, rest-of-body after the two names).
pub fn decode_bind(m: &Msg) -> Option<(String, String, Vec<u8>)> {
    let (portal, o) = m.cstr_at(0)?;
    let (stmt, o) = m.cstr_at(o)?;
    Some((portal, stmt, m.body[o..].to_vec()))
}

/// Describe/Close: (kind, name)
pub fn decode_kind_name(m: &Msg) -> Option<(u8, String)> {
    let k = *m.body.first()?;
    let (name, _) = m.cstr_at(1)?;
    Some((k, name))
}

pub fn decode_startup_params(body: &[u8]) -> Vec<(String, String)> {
    // body excludes length, includes protocol code
    let mut out = Vec::new();
    if body.len() < 4 {
        return out;
    }
    let mut parts: Vec<String> = Vec::new();
    let mut cur = Vec::new();
    for b in &body[4..] {
        if *b == 0 {
            if cur.is_empty() {
                break;
            }
            parts.push(String::from_utf8_lossy(&cur).to_string());
            cur.clear();
        } else {
            cur.push(*b);
        }
    }
    let mut i = 0;
    while i + 1 < parts.len() {
        out.push((parts[i].clone(), parts[i + 1].clone()));
        i += 2;
    }
    out
}

pub fn hex(b: &[u8]) -> String {
    let mut s = String::new();
    for x in b.iter().take(64) {
        s.push_str(&format!("{:02x}", x));
    }
    if b.len() > 64 {
        s.push_str(&format!("..(+{})", b.len() - 64));
    }
    s
}

/// Short human description of a message for traces.
pub fn describe_msg(m: &Msg) -> String {
    let c = m.code as char;
    match m.code {
        b'Q' => format!("Q[{}]", m.text()),
        b'P' => match decode_parse(m) {
            Some(p) => format!("P[{}|{}|{:?}]", p.name, p.query, p.types),
            None => format!("P[malformed {}]", hex(&m.body)),
        },
        b'B' => match decode_bind(m) {
            Some((p, s, _)) => format!("B[{}|{}]", p, s),
            None => "B[malformed]".to_string(),
        },
        b'E' if m.body.first().map(|b| b.is_ascii_uppercase()).unwrap_or(false) => {
            format!("Err[{}]", m.err_field(b'M').unwrap_or_default())
        }
        b'E' => "E".to_string(),
        b'C' | b'D' if m.body.first() == Some(&b'S') || m.body.first() == Some(&b'P') => {
            if let Some((k, n)) = decode_kind_name(m) {
                if m.body.len() == n.len() + 2 {
                    return format!("{}[{}{}]", c, k as char, n);
                }
            }
            format!("{}[{}]", c, String::from_utf8_lossy(&m.body[..m.body.len().min(40)]))
        }
        b'C' => format!("C[{}]", m.text()),
        b'Z' => format!("Z[{}]", m.text()),
        b'D' => {
            let cols = m.row_cols();
            let s: Vec<String> = cols
                .iter()
                .map(|c| match c {
                    Some(v) if v.len() <= 60 => String::from_utf8_lossy(v).to_string(),
                    Some(v) => format!("<{}B>", v.len()),
                    None => "NULL".into(),
                })
                .collect();
            format!("D[{}]", s.join(","))
        }
        b'S' if !m.body.is_empty() => format!("S[{}]", m.text().replace('\0', "=")),
        b'd' => format!("d[{}B]", m.body.len()),
        _ => format!("{}({}B)", c, m.body.len()),
    }
}
