#!/usr/bin/env python3
"""Replay sim traces of C17 against the real pgcat binary (trace conformance).

Input : JSON file written by `vcheck export-c17` — a list of scenarios, each with the client / signal
        scripts the sim executed under its default schedule and the abstract observation the sim made
        (who was admitted, who received the administrator-command error, how many requests each client
        had answered, when and why the main loop ended).
Action: for every scenario start the real binary (hooks off) on loopback ports with the same
        configuration, a minimal PostgreSQL stand-in per server address, real TCP clients following the
        same scripts in real time (scaled by K), real SIGINT / SIGTERM / SIGHUP via kill(2) and the
        admin SHUTDOWN command; observe the same abstraction; compare.
Output: JSON on stdout: per scenario {name, ok, diffs, observed}.
Timing inside a step is free-running: this is trace conformance, not interleaving exploration.
"""
import hashlib
import json
import os
import signal
import socket
import struct
import subprocess
import sys
import tempfile
import threading
import time
from concurrent.futures import ThreadPoolExecutor

K = float(os.environ.get("BINCONF_SCALE", "2"))  # real ms per sim ms
BIN = sys.argv[1]
SCEN = json.load(open(sys.argv[2]))
WORK = sys.argv[3]
PAR = int(os.environ.get("BINCONF_PAR", "12"))
ADMIN_MSG = "administrator command"


def msg(code, body=b""):
    return code + struct.pack("!i", len(body) + 4) + body


def cstr(s):
    return s.encode() + b"\0"


def recv_exact(sock, n):
    buf = b""
    while len(buf) < n:
        chunk = sock.recv(n - len(buf))
        if not chunk:
            return None
        buf += chunk
    return buf


def read_msg(sock):
    head = recv_exact(sock, 5)
    if head is None:
        return None
    code = head[:1]
    ln = struct.unpack("!i", head[1:])[0]
    body = recv_exact(sock, ln - 4) if ln > 4 else b""
    if body is None:
        return None
    return code, body


# ---------------------------------------------------------------- PostgreSQL stand-in

def backend_session(conn):
    try:
        conn.settimeout(60)
        while True:
            head = recv_exact(conn, 4)
            if head is None:
                return
            ln = struct.unpack("!i", head)[0]
            body = recv_exact(conn, ln - 4)
            if body is None:
                return
            code = struct.unpack("!i", body[:4])[0]
            if code == 80877103:  # SSLRequest
                conn.sendall(b"N")
                continue
            if code == 80877102:  # CancelRequest
                return
            break
        out = msg(b"R", struct.pack("!i", 0))
        for k, v in [("server_version", "14.9"), ("client_encoding", "UTF8"), ("DateStyle", "ISO, MDY"), ("TimeZone", "Etc/UTC"),
                     ("standard_conforming_strings", "on"), ("integer_datetimes", "on"), ("application_name", "pgcat"), ("server_encoding", "UTF8"),
                     ("IntervalStyle", "postgres"), ("is_superuser", "off")]:
            out += msg(b"S", cstr(k) + cstr(v))
        out += msg(b"K", struct.pack("!ii", os.getpid() & 0xFFFF, 12345))
        out += msg(b"Z", b"I")
        conn.sendall(out)
        status = b"I"
        in_copy = False
        failed_batch = False
        while True:
            m = read_msg(conn)
            if m is None:
                return
            code, body = m
            if in_copy:
                if code == b"d":
                    continue
                if code == b"c":
                    in_copy = False
                    conn.sendall(msg(b"C", cstr("COPY 2")) + msg(b"Z", status))
                    continue
                if code == b"f":
                    in_copy = False
                    conn.sendall(msg(b"E", b"SERROR\0C57014\0MCOPY failed\0\0") + msg(b"Z", status))
                    continue
            if code == b"X":
                return
            if code == b"Q":
                sql = body.rstrip(b"\0").decode(errors="replace").strip()
                up = sql.upper()
                out = b""
                if sql in ("", ";"):
                    out += msg(b"I")
                elif up.startswith("BEGIN"):
                    status = b"T"
                    out += msg(b"C", cstr("BEGIN"))
                elif up.startswith("COMMIT") or up.startswith("ROLLBACK"):
                    status = b"I"
                    out += msg(b"C", cstr(up.split()[0]))
                elif up.startswith("COPY") and "FROM STDIN" in up:
                    in_copy = True
                    conn.sendall(msg(b"G", b"\0" + struct.pack("!h", 0)))
                    continue
                elif up.startswith("SELECT"):
                    out += msg(b"T", struct.pack("!h", 1) + cstr("v") + struct.pack("!ihihih", 0, 0, 25, -1, -1, 0))
                    out += msg(b"D", struct.pack("!h", 1) + struct.pack("!i", len(sql.encode())) + sql.encode())
                    out += msg(b"C", cstr("SELECT 1"))
                else:
                    out += msg(b"C", cstr(up.split()[0] if up.split() else "OK"))
                out += msg(b"Z", status)
                conn.sendall(out)
            elif code == b"P":
                conn.sendall(msg(b"1"))
            elif code == b"B":
                conn.sendall(msg(b"2"))
            elif code == b"D":
                conn.sendall(msg(b"n"))
            elif code == b"E":
                conn.sendall(msg(b"D", struct.pack("!h", 1) + struct.pack("!i", 1) + b"1") + msg(b"C", cstr("SELECT 1")))
            elif code == b"C":
                conn.sendall(msg(b"3"))
            elif code == b"S":
                conn.sendall(msg(b"Z", status))
            elif code == b"H":
                pass
    except (OSError, socket.timeout):
        return
    finally:
        try:
            conn.close()
        except OSError:
            pass


def start_backend():
    srv = socket.socket(socket.AF_INET, socket.SOCK_STREAM)
    srv.setsockopt(socket.SOL_SOCKET, socket.SO_REUSEADDR, 1)
    srv.bind(("127.0.0.1", 0))
    srv.listen(64)
    port = srv.getsockname()[1]
    stop = threading.Event()

    def loop():
        srv.settimeout(0.2)
        while not stop.is_set():
            try:
                c, _ = srv.accept()
            except socket.timeout:
                continue
            except OSError:
                return
            threading.Thread(target=backend_session, args=(c,), daemon=True).start()

    threading.Thread(target=loop, daemon=True).start()
    return srv, port, stop


def free_port():
    s = socket.socket()
    s.bind(("127.0.0.1", 0))
    p = s.getsockname()[1]
    s.close()
    return p


# ---------------------------------------------------------------- scripted client

class Client:
    def __init__(self, port):
        self.port = port
        self.sock = None
        self.lock = threading.Lock()
        self.msgs = []  # (code, body) received
        self.z = 0
        self.eof = False
        self.login_ok = False
        self.reader = None
        self.refused_connect = False

    def _reader(self):
        s = self.sock
        while True:
            try:
                m = read_msg(s)
            except OSError:
                m = None
            with self.lock:
                if m is None:
                    self.eof = True
                    return
                self.msgs.append(m)
                if m[0] == b"Z":
                    self.z += 1

    def wait(self, pred, timeout):
        end = time.time() + timeout
        while time.time() < end:
            with self.lock:
                if pred():
                    return True
            time.sleep(0.003)
        with self.lock:
            return pred()

    def connect(self, user, db, pw):
        try:
            self.sock = socket.create_connection(("127.0.0.1", self.port), timeout=2)
        except OSError:
            self.refused_connect = True
            self.eof = True
            return
        self.sock.settimeout(None)
        body = struct.pack("!i", 196608) + cstr("user") + cstr(user) + cstr("database") + cstr(db) + b"\0"
        self.sock.sendall(struct.pack("!i", len(body) + 4) + body)
        # authentication is synchronous
        try:
            while True:
                m = read_msg(self.sock)
                if m is None:
                    self.eof = True
                    return
                self.msgs.append(m)
                code, b = m
                if code == b"R":
                    kind = struct.unpack("!i", b[:4])[0]
                    if kind == 5:
                        salt = b[4:8]
                        inner = hashlib.md5((pw or "").encode() + user.encode()).hexdigest()
                        outer = hashlib.md5(inner.encode() + salt).hexdigest()
                        self.sock.sendall(msg(b"p", cstr("md5" + outer)))
                elif code == b"E":
                    # wait for the close
                    pass
                elif code == b"Z":
                    self.z += 1
                    self.login_ok = True
                    break
        except OSError:
            self.eof = True
            return
        self.reader = threading.Thread(target=self._reader, daemon=True)
        self.reader.start()

    def send(self, data):
        if self.sock is None or self.eof:
            return False
        try:
            self.sock.sendall(data)
            return True
        except OSError:
            return False

    def close_hard(self):
        if self.sock is not None:
            # shutdown first: a close() alone does not take effect while the reader thread sits in recv()
            try:
                self.sock.shutdown(socket.SHUT_RDWR)
            except OSError:
                pass
            try:
                self.sock.close()
            except OSError:
                pass
            self.eof = True


def run_actor(steps, ctx, cl):
    t0 = ctx["t0"]
    for st in steps:
        if ctx["stop"].is_set():
            return
        k = st["k"]
        if k == "connect":
            cl.connect(st["user"], st["db"], st.get("pw"))
            if not cl.login_ok:
                # the rest of a script needs a session
                cl.wait(lambda: cl.eof, 1.0)
                return
        elif k == "send":
            if cl.eof or not cl.send(bytes.fromhex(st["hex"])):
                return
        elif k == "wait_z":
            n = st["n"]
            cl.wait(lambda: cl.z >= n or cl.eof, 30)
            if cl.eof and cl.z < n:
                return
        elif k == "wait_code":
            code = bytes([st["code"]])
            n = st["n"]
            cl.wait(lambda: sum(1 for m in cl.msgs if m[0] == code) >= n or cl.eof, 30)
        elif k == "wait_closed":
            while not ctx["stop"].is_set():
                if cl.wait(lambda: cl.eof, 0.2):
                    break
            return
        elif k == "wait_time":
            target = t0 + st["ms"] * K / 1000.0
            while time.time() < target:
                if ctx["stop"].is_set():
                    return
                time.sleep(min(0.01, max(0.0, target - time.time())))
        elif k == "close_hard":
            cl.close_hard()
            return
        elif k == "signal":
            sig = {"INT": signal.SIGINT, "TERM": signal.SIGTERM, "HUP": signal.SIGHUP}[st["sig"]]
            if ctx["proc"].poll() is None:
                ctx["signals"].append((st["sig"], time.time()))
                os.kill(ctx["proc"].pid, sig)
        elif k == "admin":
            ac = Client(cl.port)
            ac.connect("admin_user", "pgcat", "admin_pass")
            ctx["extra_clients"].append(ac)
            if ac.login_ok:
                z = ac.z
                ctx["signals"].append(("INT" if "SHUTDOWN" in st["cmd"].upper() else "ADMIN", time.time()))
                ac.send(msg(b"Q", cstr(st["cmd"])))
                ac.wait(lambda: ac.z > z or ac.eof, 5)
        else:
            raise RuntimeError("unknown step " + k)


def run_scenario(sc, idx):
    wd = os.path.join(WORK, "s%d" % idx)
    os.makedirs(wd, exist_ok=True)
    backends = {}
    stops = []
    toml = sc["toml"]
    for addr in sc["servers"]:
        srv, port, stop = start_backend()
        host, p = addr.rsplit(":", 1)
        backends[addr] = port
        stops.append((srv, stop))
        toml = toml.replace('["%s", %s,' % (host, p), '["127.0.0.1", %d,' % port)
    pport = free_port()
    toml = toml.replace('host = "0.0.0.0"\nport = 6432', 'host = "127.0.0.1"\nport = %d' % pport)
    toml = toml.replace("shutdown_timeout = %d" % sc["timeout_ms"], "shutdown_timeout = %d" % int(sc["timeout_ms"] * K))
    cfg = os.path.join(wd, "pgcat.toml")
    open(cfg, "w").write(toml)
    log = open(os.path.join(wd, "pgcat.log"), "w")
    proc = subprocess.Popen([BIN, cfg], stdout=log, stderr=subprocess.STDOUT, cwd=wd, env=dict(os.environ, RUST_LOG="info", NO_COLOR="true"))
    obs = {"name": sc["name"]}
    try:
        up = False
        for _ in range(400):
            if proc.poll() is not None:
                break
            try:
                s = socket.create_connection(("127.0.0.1", pport), timeout=0.2)
                s.close()
                up = True
                break
            except OSError:
                time.sleep(0.02)
        if not up:
            return {"name": sc["name"], "ok": False, "diffs": ["pgcat did not start: exit=%s" % proc.poll()], "observed": {}}
        time.sleep(0.1)
        ctx = {"t0": time.time(), "stop": threading.Event(), "proc": proc, "signals": [], "extra_clients": []}
        clients = [Client(pport) for _ in sc["actors"]]
        threads = []
        for a, cl in zip(sc["actors"], clients):
            th = threading.Thread(target=run_actor, args=(a["steps"], ctx, cl), daemon=True)
            th.start()
            threads.append(th)
        horizon = ctx["t0"] + sc["horizon_ms"] * K / 1000.0 + 1.0
        exit_t = None
        while time.time() < horizon:
            if proc.poll() is not None:
                exit_t = time.time()
                break
            if all(not th.is_alive() for th in threads):
                # scripts done; give the process a moment (exit after the last client left)
                end = time.time() + 0.4
                while time.time() < end and proc.poll() is None:
                    time.sleep(0.01)
                if proc.poll() is not None:
                    exit_t = time.time()
                break
            time.sleep(0.005)
        if proc.poll() is not None and exit_t is None:
            exit_t = time.time()
        time.sleep(0.05)
        ctx["stop"].set()
        first = [t for (s, t) in ctx["signals"] if s in ("INT", "TERM")]
        obs["exit"] = {
            "happened": proc.poll() is not None,
            "code": proc.poll(),
            "t_rel_ms": None if (exit_t is None or not first) else int((exit_t - first[0]) * 1000 / K),
        }
        cl_obs = []
        for a, cl in zip(sc["actors"], clients):
            with cl.lock:
                errs = [m[1] for m in cl.msgs if m[0] == b"E"]
                cl_obs.append({
                    "name": a["name"],
                    "login_ok": cl.login_ok,
                    "n_z": max(0, cl.z - 1) if cl.login_ok else 0,
                    "admin_err": any(ADMIN_MSG.encode() in e for e in errs),
                    "other_errs": sum(1 for e in errs if ADMIN_MSG.encode() not in e),
                })
        obs["clients"] = cl_obs
    finally:
        if proc.poll() is None:
            proc.kill()
        proc.wait()
        log.close()
        for srv, stop in stops:
            stop.set()
            try:
                srv.close()
            except OSError:
                pass
    # ---- compare with the sim's observation
    exp = sc["expected"]
    diffs = []
    e_exit, o_exit = exp["exit"], obs["exit"]
    if e_exit["happened"] != o_exit["happened"]:
        diffs.append("exit happened: sim=%s binary=%s" % (e_exit["happened"], o_exit["happened"]))
    elif e_exit["happened"]:
        if o_exit["code"] != 0:
            diffs.append("exit status %s (expected 0)" % o_exit["code"])
        if e_exit["t_rel_ms"] is not None and o_exit["t_rel_ms"] is not None:
            tol = 350
            if abs(e_exit["t_rel_ms"] - o_exit["t_rel_ms"]) > tol:
                diffs.append("exit instant relative to the first SIGINT/SIGTERM: sim=%dms binary=%dms (scaled back, tolerance %dms)" % (e_exit["t_rel_ms"], o_exit["t_rel_ms"], tol))
    for ec, oc in zip(exp["clients"], obs["clients"]):
        if not ec.get("judge", True):
            continue
        for f in ("login_ok", "admin_err", "n_z"):
            if ec[f] is None:
                continue  # not determined by the property (see abstract_obs)
            if ec[f] != oc[f]:
                diffs.append("client %s %s: sim=%s binary=%s" % (ec["name"], f, ec[f], oc[f]))
    return {"name": sc["name"], "ok": not diffs, "diffs": diffs, "observed": obs}


def main():
    os.makedirs(WORK, exist_ok=True)
    results = [None] * len(SCEN)
    with ThreadPoolExecutor(max_workers=PAR) as ex:
        futs = {ex.submit(run_scenario, sc, i): i for i, sc in enumerate(SCEN)}
        for f in futs:
            i = futs[f]
            try:
                results[i] = f.result()
            except Exception as e:  # machinery problem, not a verdict
                results[i] = {"name": SCEN[i]["name"], "ok": False, "error": repr(e), "diffs": [], "observed": {}}
    # Real time is not owned by the replayer: with PAR processes starting at once a scenario can miss its
    # window. A difference counts only if it reproduces with the scenario run alone (twice more); the
    # number of such re-runs is reported.
    for i, r in enumerate(results):
        if r.get("ok") or r.get("error"):
            continue
        for attempt in (1, 2):
            try:
                again = run_scenario(SCEN[i], 1000 + 2 * i + attempt)
            except Exception as e:
                again = {"name": SCEN[i]["name"], "ok": False, "error": repr(e), "diffs": [], "observed": {}}
            if again.get("ok"):
                again["conformed_on_isolated_rerun"] = attempt
                again["first_diffs"] = r.get("diffs", [])
                results[i] = again
                break
            results[i] = again
    json.dump(results, sys.stdout)


if __name__ == "__main__":
    main()
