//! loom model of the pause/resume core of pgcat's ConnectionPool. The method bodies are the
//! verbatim source text of /repo/src/pool.rs (see extract.py); `AtomicBool` is loom's, and
//! `Notify` is a small shim with tokio's documented contract built from loom primitives.

pub use loom::sync::atomic::{AtomicBool, Ordering};
pub use loom::sync::Arc;

pub mod notify {
    use loom::sync::{Condvar, Mutex};

    struct State {
        /// number of notify_waiters() calls so far
        generation: u64,
        /// a permit stored by notify_one() when nobody was waiting (at most one)
        permit: bool,
        /// wake-ups handed out by notify_one() to already-waiting tasks
        grants: usize,
        waiting: usize,
    }

    /// tokio::sync::Notify contract used by pgcat:
    ///  * `notified()` returns a future that completes at the first `notify_waiters()` issued
    ///    after its *creation* (even if it has not been polled yet);
    ///  * `notify_one()` wakes one waiting task or, if none waits, stores a single permit that
    ///    the next `notified().await` consumes.
    pub struct Notify {
        state: Mutex<State>,
        cv: Condvar,
    }

    pub struct Notified<'a> {
        n: &'a Notify,
        generation: u64,
    }

    impl Notify {
        pub fn new() -> Notify {
            Notify { state: Mutex::new(State { generation: 0, permit: false, grants: 0, waiting: 0 }), cv: Condvar::new() }
        }
        pub fn notified(&self) -> Notified<'_> {
            let g = self.state.lock().unwrap().generation;
            Notified { n: self, generation: g }
        }
        pub fn notify_waiters(&self) {
            let mut s = self.state.lock().unwrap();
            s.generation += 1;
            self.cv.notify_all();
        }
        pub fn notify_one(&self) {
            let mut s = self.state.lock().unwrap();
            if s.waiting > s.grants {
                s.grants += 1;
                self.cv.notify_all();
            } else {
                s.permit = true;
            }
        }
    }

    impl<'a> Notified<'a> {
        /// blocking equivalent of `.await`
        pub fn wait(self) {
            let mut s = self.n.state.lock().unwrap();
            s.waiting += 1;
            loop {
                if s.generation != self.generation {
                    s.waiting -= 1;
                    return;
                }
                if s.grants > 0 {
                    s.grants -= 1;
                    s.waiting -= 1;
                    return;
                }
                if s.permit {
                    s.permit = false;
                    s.waiting -= 1;
                    return;
                }
                s = self.n.cv.wait(s).unwrap();
            }
        }
    }
}

pub use notify::Notify;

/// The two fields of pgcat's ConnectionPool that the extracted methods touch.
pub struct ConnectionPool {
    pub paused: Arc<AtomicBool>,
    pub paused_waiter: Arc<Notify>,
}

impl ConnectionPool {
    pub fn new() -> ConnectionPool {
        ConnectionPool { paused: Arc::new(AtomicBool::new(false)), paused_waiter: Arc::new(Notify::new()) }
    }
}

include!("extracted.rs");
