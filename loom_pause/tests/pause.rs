use loom_pause::{Arc, ConnectionPool};
use std::sync::atomic::{AtomicUsize, Ordering as StdOrdering};

fn run(name: &str, admin: &'static [&'static str], clients: usize, waits_per_client: usize) {
    static ITER: AtomicUsize = AtomicUsize::new(0);
    ITER.store(0, StdOrdering::SeqCst);
    let mut b = loom::model::Builder::new();
    if b.preemption_bound.is_none() {
        b.preemption_bound = Some(3);
    }
    b.check(move || {
        ITER.fetch_add(1, StdOrdering::SeqCst);
        let pool = Arc::new(ConnectionPool::new());
        // ends with the pool resumed: every client must eventually get through
        let resumes_started = Arc::new(loom::sync::atomic::AtomicUsize::new(0));
        let mut hs = Vec::new();
        for _ in 0..clients {
            let p = pool.clone();
            let r = resumes_started.clone();
            hs.push(loom::thread::spawn(move || {
                for _ in 0..waits_per_client {
                    let was_paused = p.wait_paused();
                    if was_paused {
                        // it was held: it may only be released by a RESUME
                        assert!(r.load(loom::sync::atomic::Ordering::SeqCst) > 0, "released from PAUSE without a RESUME");
                    }
                }
            }));
        }
        {
            let p = pool.clone();
            let r = resumes_started.clone();
            hs.push(loom::thread::spawn(move || {
                for a in admin {
                    match *a {
                        "pause" => p.pause(),
                        "resume" => {
                            r.fetch_add(1, loom::sync::atomic::Ordering::SeqCst);
                            p.resume();
                        }
                        _ => unreachable!(),
                    }
                }
            }));
        }
        for h in hs {
            h.join().unwrap();
        }
        assert!(!pool.paused());
    });
    println!("LOOM-ITER name={} iterations={}", name, ITER.load(StdOrdering::SeqCst));
}

#[test]
fn pause_resume_one_client() {
    run("P;R x1", &["pause", "resume"], 1, 1);
}

#[test]
fn pause_resume_two_clients() {
    run("P;R x2", &["pause", "resume"], 2, 1);
}

#[test]
fn pause_resume_twice_one_client_two_waits() {
    run("P;R;P;R x1(2 waits)", &["pause", "resume", "pause", "resume"], 1, 2);
}

#[test]
fn redundant_resume_then_pause_resume() {
    run("R;P;R x1", &["resume", "pause", "resume"], 1, 1);
}

#[test]
fn redundant_resume_then_pause_resume_two_clients() {
    run("R;P;R x2", &["resume", "pause", "resume"], 2, 1);
}
