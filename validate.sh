#!/bin/bash
# validate MANIFEST.json and all evidence files against the schemas
python3-vt - <<'PY'
import json,jsonschema,glob,sys
ok=True
try:
    jsonschema.validate(json.load(open('/verif/MANIFEST.json')),json.load(open('/root/.vp/MANIFEST.schema.json'))); print('MANIFEST ok')
except Exception as e:
    ok=False; print('MANIFEST INVALID',e)
es=json.load(open('/root/.vp/EVIDENCE.schema.json'))
for f in sorted(glob.glob('/verif/evidence/*.json')):
    try:
        jsonschema.validate(json.load(open(f)),es); print(f,'ok')
    except Exception as e:
        ok=False; print(f,'INVALID',str(e)[:300])
sys.exit(0 if ok else 1)
PY
